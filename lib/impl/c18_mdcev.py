"""Implementation side of the C18 streams (runs with PYTHONPATH=/repo/src in a scratch cwd).

stdin : {"mode": ..., "cases": [case, ...]}
stdout: one line '@@' + json list with one result per case.  Every call into biogeme is wrapped:
an exception is *data* ({'exc': type, 'msg': ...}), never a crash of this script.

A case describes one MDCEV model:
  variant  'G' GammaProfile | 'T' Translated | 'Z' Generalized | 'N' NonMonotonic
  labels   integer labels, in dict-insertion order
  a, b     baseline utility of alternative i is  Numeric(a_i) + Beta(b_i) * Variable('z')   (z from the row)
           (b_i = None: the baseline utility is the constant Numeric(a_i))
  gamma    list (None = outside good), alpha / price / mu lists or None, scale number or None
  pk       'numeric' | 'beta': parameters are Numeric(v) or fixed Beta(name, v)
  z        value of the variable in the one-row database
"""
import json
import logging
import math
import sys
import warnings

import numpy as np
import pandas as pd

warnings.simplefilter('ignore')
np.seterr(all='ignore')


def fin(x):
    """JSON-safe float: doubles as hex strings (exact), non-finite as tagged strings."""
    try:
        x = float(x)
    except Exception:
        return {'bad': repr(x)[:80]}
    if math.isnan(x):
        return 'nan'
    if math.isinf(x):
        return 'inf' if x > 0 else '-inf'
    return x


def exc(e):
    return {'exc': type(e).__name__, 'msg': str(e)[:300]}


def build(c):
    from biogeme.expressions import Beta, Numeric, Variable
    from biogeme.mdcev import GammaProfile, Translated, Generalized, NonMonotonic

    labels = c['labels']
    pk = c.get('pk', 'numeric')

    def P(name, v):
        if v is None:
            return None
        return Numeric(v) if pk == 'numeric' else Beta(name, v, None, None, 1)

    bu = {}
    for i, k in enumerate(labels):
        if c['b'][i] is None:
            bu[k] = Numeric(c['a'][i])
        else:
            bu[k] = Numeric(c['a'][i]) + Beta(f'b_{k}', c['b'][i], None, None, 0) * Variable('z')
    ga = {k: P(f'gamma_{k}', c['gamma'][i]) for i, k in enumerate(labels)}
    al = None if c.get('alpha') is None else {k: P(f'alpha_{k}', c['alpha'][i]) for i, k in enumerate(labels)}
    pr = None if c.get('price') is None else {k: P(f'price_{k}', c['price'][i]) for i, k in enumerate(labels)}
    sc = None if c.get('scale') is None else P('scale', c['scale'])
    v = c['variant']
    if v == 'G':
        return GammaProfile('m', bu, ga, alpha_parameters=al, scale_parameter=sc, prices=pr)
    if v == 'T':
        return Translated('m', bu, ga, alpha_parameters=al, scale_parameter=sc)
    if v == 'Z':
        return Generalized('m', bu, ga, alpha_parameters=al, scale_parameter=sc, prices=pr)
    if v == 'N':
        mus = {}
        for i, k in enumerate(labels):
            mus[k] = Numeric(c['mu'][i]) if c['b'][i] is None else (
                Numeric(c['mu'][i]) + Numeric(0.0) * Variable('z'))
        return NonMonotonic('m', bu, ga, mu_utilities=mus, alpha_parameters=al, scale_parameter=sc)
    raise ValueError(v)


def one_row(c):
    from biogeme.database import Database
    return Database('r', pd.DataFrame([{'z': float(c.get('z', 1.0)), 'dummy': 0.0}]))


def call(f, *a, **k):
    try:
        return fin(f(*a, **k))
    except Exception as e:  # noqa
        return exc(e)


# ----------------------------------------------------------------------------- pieces
def run_pieces(c):
    from biogeme.expressions import Beta, Numeric
    from bio_bridge import expr_to_json
    out = {}
    try:
        m = build(c)
        row = one_row(c)
    except Exception as e:  # noqa
        return {'build': exc(e)}
    out['index_to_key'] = [int(k) for k in m.index_to_key]
    out['og_key'] = m.outside_good_key
    pts = []
    for p in c['points']:
        k = c['labels'][p['i']]
        x, eps, lam, h = p['x'], p['eps'], p['lam'], p['h']
        r = {}
        r['u'] = call(m.utility_one_alternative, the_id=k, the_consumption=x, epsilon=eps, one_observation=row)
        r['u_plus'] = call(m.utility_one_alternative, the_id=k, the_consumption=x + h, epsilon=eps, one_observation=row)
        r['u_minus'] = call(m.utility_one_alternative, the_id=k, the_consumption=x - h, epsilon=eps, one_observation=row)
        r['d'] = call(m.derivative_utility_one_alternative, the_id=k, the_consumption=x, epsilon=eps,
                      one_observation=row)
        try:
            cons = Beta('consumption', x, None, None, 0)
            e = m.utility_expression_one_alternative(the_id=k, the_consumption=cons, unscaled_epsilon=Numeric(eps))
            fo = e.get_value_and_derivatives(database=row, prepare_ids=True, gradient=True, named_results=True)
            r['u_sym'] = fin(fo.function)
            r['d_sym'] = fin(fo.gradient['consumption'])
            if p.get('tree'):
                r['tree'] = expr_to_json(e)
            try:  # the pure-Python evaluator (only defined when the formula has no Variable)
                r['u_sym_py'] = fin(e.get_value())
            except Exception:  # noqa
                r['u_sym_py'] = None
        except Exception as ex:  # noqa
            r['u_sym'] = exc(ex)
            r['d_sym'] = exc(ex)
        try:
            cons = Beta('consumption', x, None, None, 0)
            t = m.transformed_utility(k, cons)
            r['tu'] = fin(t.get_value_c(database=row, prepare_ids=True)[0])
        except Exception as ex:  # noqa
            r['tu'] = exc(ex)
        xo = call(m.optimal_consumption_one_alternative, the_id=k, dual_variable=lam, epsilon=eps, one_observation=row)
        r['x_opt'] = xo
        if isinstance(xo, float):
            r['d_at_opt'] = call(m.derivative_utility_one_alternative, the_id=k, the_consumption=xo, epsilon=eps,
                                 one_observation=row)
        else:
            r['d_at_opt'] = None
        pts.append(r)
    out['points'] = pts
    return out


# ----------------------------------------------------------------------------- forecast
class Grab(logging.Handler):
    def __init__(self):
        super().__init__(level=logging.WARNING)
        self.msgs = []

    def emit(self, record):
        try:
            self.msgs.append(record.getMessage()[:300])
        except Exception:  # noqa
            self.msgs.append('<unformattable>')


def eps_by_position(m, c, eps_by_label_order):
    """eps_by_label_order[i] belongs to labels[i]; the implementation indexes epsilon by position."""
    pos = {k: i for i, k in enumerate(c['labels'])}
    return np.array([eps_by_label_order[pos[k]] for k in m.index_to_key], dtype=float)


def per_key(m, c, row, sol, eps_lab):
    """utility and derivative of every alternative at the solution, keyed by label (as strings)."""
    pos = {k: i for i, k in enumerate(c['labels'])}
    u, d = {}, {}
    for k in c['labels']:
        x = float(sol[k])
        e = eps_lab[pos[k]]
        u[str(k)] = call(m.utility_one_alternative, the_id=k, the_consumption=x, epsilon=e, one_observation=row)
        d[str(k)] = call(m.derivative_utility_one_alternative, the_id=k, the_consumption=x, epsilon=e,
                         one_observation=row)
    return u, d


def run_forecast(c):
    out = {}
    try:
        m = build(c)
        row = one_row(c)
    except Exception as e:  # noqa
        return {'build': exc(e)}
    out['index_to_key'] = [int(k) for k in m.index_to_key]
    out['og_key'] = m.outside_good_key
    out['og_index'] = m.outside_good_index
    try:
        out['validation'] = [str(s)[:300] for s in m.validation(row)]
    except Exception as e:  # noqa
        out['validation'] = exc(e)
    B = c['budget']
    if c.get('history'):
        # HISTORY: the same model object is first used on data set A (other covariates, SAME database / row
        # names), through validation(), forecast_bisection_one_draw and forecast(); everything below is its second
        # use, on data set B.  Nothing of the first use may leak into the second.
        first = {}
        try:
            from biogeme.database import Database
            zA = float(c['history']['z'])
            rowA = Database('r', pd.DataFrame([{'z': zA, 'dummy': 0.0}]))
            try:
                first['validation'] = [str(x)[:200] for x in m.validation(rowA)]
            except Exception as e:  # noqa
                first['validation'] = exc(e)
            for eps_lab in c['draws']:
                try:
                    sol = m.forecast_bisection_one_draw(one_row_of_database=rowA, total_budget=c['budget'],
                                                        epsilon=eps_by_position(m, c, eps_lab))
                    first.setdefault('bis', []).append({str(k): fin(v) for k, v in sol.items()})
                except Exception as e:  # noqa
                    first.setdefault('bis', []).append(exc(e))
            try:
                dbA = Database('d', pd.DataFrame([{'z': zA, 'dummy': 0.0}]))
                eps_all = np.array([eps_by_position(m, c, e) for e in c['draws']])
                m.forecast(database=dbA, total_budget=c['budget'], epsilons=[eps_all])
                first['api'] = 'ok'
            except Exception as e:  # noqa
                first['api'] = exc(e)
        except Exception as e:  # noqa
            first['harness'] = exc(e)
        out['first_use'] = first
        try:
            out['validation'] = [str(s)[:300] for s in m.validation(row)]
        except Exception as e:  # noqa
            out['validation'] = exc(e)
        # reference: a FRESH model object that only ever sees data set B
        fresh = []
        try:
            m2 = build(c)
            row2 = one_row(c)
            for eps_lab in c['draws']:
                try:
                    sol = m2.forecast_bisection_one_draw(one_row_of_database=row2, total_budget=c['budget'],
                                                         epsilon=eps_by_position(m2, c, eps_lab))
                    fresh.append({str(k): fin(v) for k, v in sol.items()})
                except Exception as e:  # noqa
                    fresh.append(exc(e))
        except Exception as e:  # noqa
            fresh = exc(e)
        out['fresh'] = fresh
    if c.get('craft_stale'):
        # test-input construction: choose the budget one ulp away from the total consumption at the
        # first bisection midpoint (see C18.py, corpus 'stale-dual')
        try:
            e0 = eps_by_position(m, c, c['draws'][0])
            ch, lo, up = m.identification_chosen_alternatives(database=row, total_budget=B, epsilon=e0)
            oc = m.optimal_consumption(chosen_alternatives=ch, dual_variable=(lo + up) / 2, epsilon=e0,
                                       one_observation=row)
            tot = float(sum(oc.values()))
            B = float(np.nextafter(tot, -np.inf if c['craft_stale'] < 0 else np.inf))
        except Exception as e:  # noqa
            out['craft'] = exc(e)
    out['budget'] = B
    tol = c.get('tol')
    kw = {} if tol is None else {'tolerance_dual': tol[0], 'tolerance_budget': tol[1]}
    draws = []
    for eps_lab in c['draws']:
        r = {}
        try:
            eps = eps_by_position(m, c, eps_lab)
        except Exception as e:  # noqa
            draws.append({'eps': exc(e)})
            continue
        try:
            sol = m.forecast_bisection_one_draw(one_row_of_database=row, total_budget=B, epsilon=eps, **kw)
            r['bis'] = {str(k): fin(v) for k, v in sol.items()}
            r['bis_keys_ok'] = sorted(int(k) for k in sol) == sorted(c['labels'])
            if r['bis_keys_ok'] and all(isinstance(v, float) for v in r['bis'].values()):
                r['bis_u'], r['bis_d'] = per_key(m, c, row, sol, eps_lab)
                arr = np.array([float(sol[k]) for k in m.index_to_key])
                r['bis_sum_of_utilities'] = call(m.sum_of_utilities, consumptions=arr, epsilon=eps, data_row=row)
        except Exception as e:  # noqa
            r['bis'] = exc(e)
        if c.get('brute', True):
            try:
                sol = m.forecast_bruteforce_one_draw(one_row_database=row, total_budget=B, epsilon=eps)
                if sol is None:
                    r['brute'] = None
                else:
                    r['brute'] = {str(k): fin(v) for k, v in sol.items()}
                    if all(isinstance(v, float) for v in r['brute'].values()):
                        r['brute_u'], _ = per_key(m, c, row, sol, eps_lab)
            except Exception as e:  # noqa
                r['brute'] = exc(e)
        if c.get('comparison'):
            g = Grab()
            lg = logging.getLogger('biogeme.mdcev.mdcev')
            lg.addHandler(g)
            try:
                # same tolerances as the forecast_bisection_one_draw call above (its defaults are 1e-13; the
                # defaults of the comparison are 1e-10, which legitimately moves the solution)
                ckw = kw or {'tolerance_dual': 1.0e-13, 'tolerance_budget': 1.0e-13}
                m.forecast_comparison_one_draw(one_row_of_database=row, total_budget=B, epsilon=eps, **ckw)
                r['comparison'] = g.msgs
            except Exception as e:  # noqa
                r['comparison'] = exc(e)
            finally:
                lg.removeHandler(g)
        draws.append(r)
    out['draws'] = draws
    if c.get('api'):
        # the public entry point: a database with one row, all the draws at once
        try:
            from biogeme.database import Database
            db = Database('d', pd.DataFrame([{'z': float(c.get('z', 1.0)), 'dummy': 0.0}]))
            eps_all = np.array([eps_by_position(m, c, e) for e in c['draws']])
            res = m.forecast(database=db, total_budget=B, epsilons=[eps_all])
            df = res[0]
            out['api'] = {'columns': [int(x) for x in df.columns],
                          'rows': [[fin(v) for v in df.iloc[i].tolist()] for i in range(len(df))]}
        except Exception as e:  # noqa
            out['api'] = exc(e)
    return out


def main():
    sys.path.insert(0, '/verif/lib/impl')
    payload = json.load(sys.stdin)
    mode = payload['mode']
    res = []
    for c in payload['cases']:
        try:
            res.append(run_pieces(c) if mode == 'pieces' else run_forecast(c))
        except Exception as e:  # noqa
            res.append({'harness': exc(e)})
    print('@@' + json.dumps(res))


main()
