"""Implementation side of the C02 stream `pack`: the small packaging functions are run on integer-tagged
inputs (no engine: cythonbiogeme's evaluator is replaced by a stub that records the flags it receives and
returns the tagged arrays), so that the harness can compare WHICH entry ends up WHERE with the Gallina
definitions regenerated from the same source (Gen/Pack.v).  Exceptions are data."""
import json
import logging
import sys
import types
import warnings

warnings.filterwarnings('ignore')
logging.disable(logging.CRITICAL)
import numpy as np  # noqa: E402


def ints(a):
    if a is None:
        return None
    return np.asarray(a).astype(np.int64).tolist()


def exc(e):
    return {'exc': type(e).__name__, 'msg': str(e)[:160]}


def tagged(n, k):
    f = np.array([100 + r for r in range(n)], dtype=float)
    g = np.array([[1000 * (r + 1) + i for i in range(k)] for r in range(n)], dtype=float).reshape(n, k)
    h = np.array([[[100000 * (r + 1) + 100 * i + j for j in range(k)] for i in range(k)] for r in range(n)], dtype=float).reshape(n, k, k)
    b = -h - 1
    return f, g, h, b


def do_names(c):
    from biogeme.expressions.idmanager import expressions_names_indices
    r = expressions_names_indices({k: None for k in c['keys']})
    return {'indices': [[k, int(v)] for k, v in r.indices.items()], 'names': list(r.names)}


def do_convert(c):
    from biogeme.function_output import convert_to_dict
    try:
        r = convert_to_dict(list(c['seq']), {k: v for k, v in c['map']})
        return {'items': [[k, int(v)] for k, v in r.items()]}
    except IndexError:
        return {'index_error': True}


def do_select(c):
    import biogeme.expressions.calculator as calc
    from biogeme.exceptions import BiogemeError
    n, k = c['n'], c['k']
    f, g, h, b = tagged(n, k)
    rec = {}

    class Cpp:
        def setData(self, d): pass
        def setDataMap(self, d): pass
        def setDraws(self, d): pass
        def setExpression(self, s): pass
        def setFreeBetas(self, v): pass
        def setFixedBetas(self, v): pass
        def setMissingData(self, v): pass

        def calculate(self, **kw):
            rec['flags'] = [bool(kw.get(x)) for x in ('gradient', 'hessian', 'bhhh', 'aggregation')]
            rec['kw'] = sorted(kw)

        def getResults(self):
            return f, g, h, b
    old = calc.ee
    calc.ee = types.SimpleNamespace(pyEvaluateOneExpression=Cpp)
    expr = types.SimpleNamespace(embed_expression=lambda name: False, requires_draws=lambda: False, get_signature=lambda: [b''],
                                 id_manager=types.SimpleNamespace(free_betas_values=[], fixed_betas_values=[]), missingData=99999)
    db = types.SimpleNamespace(data=None) if c['db'] else None
    try:
        r = calc.calculate_function_and_derivatives(the_expression=expr, database=db, calculate_gradient=c['cg'], calculate_hessian=c['ch'],
                                                    calculate_bhhh=c['cb'], aggregation=c['agg'])
        d = getattr(r, 'data', r)
        if type(d).__name__ == 'BiogemeFunctionOutput':
            out = {'kind': 'agg', 'f': int(d.function), 'g': ints(d.gradient), 'h': ints(d.hessian), 'b': ints(d.bhhh)}
        elif type(d).__name__ == 'BiogemeDisaggregateFunctionOutput':
            out = {'kind': 'dis', 'f': ints(d.functions), 'g': ints(d.gradients), 'h': ints(d.hessians), 'b': ints(d.bhhhs)}
        else:
            out = {'kind': 'other', 'type': type(d).__name__}
    except BiogemeError:
        out = {'kind': 'err'}
    except Exception as e:  # noqa
        out = exc(e)
    finally:
        calc.ee = old
    out['flags'] = rec.get('flags')
    return out


def do_unique(c):
    from biogeme.function_output import BiogemeDisaggregateFunctionOutput
    f, g, h, b = tagged(c['n'], c['k'])
    d = BiogemeDisaggregateFunctionOutput(functions=f, gradients=g if c['hg'] else None, hessians=h if c['hh'] else None, bhhhs=b if c['hb'] else None)
    try:
        r = d.unique_entry()
    except Exception as e:  # noqa
        return exc(e)
    if r is None:
        return {'none': True}
    return {'f': int(r.function), 'g': ints(r.gradient), 'h': ints(r.hessian), 'b': ints(r.bhhh)}


def dmat(m):
    return None if m is None else [[k, [[k2, int(v2)] for k2, v2 in row.items()]] for k, row in m.items()]


def dvec(v):
    return None if v is None else [[k, int(x)] for k, x in v.items()]


def do_named(c):
    from biogeme.function_output import (BiogemeFunctionOutput, BiogemeDisaggregateFunctionOutput, NamedBiogemeFunctionOutput,
                                         NamedBiogemeDisaggregateFunctionOutput)
    n, k = c['n'], c['k']
    f, g, h, b = tagged(n, k)
    mp = {kk: v for kk, v in c['map']}
    try:
        if c['agg']:
            o = BiogemeFunctionOutput(function=float(f[0]), gradient=g[0] if c['hg'] else None, hessian=h[0] if c['hh'] else None,
                                      bhhh=b[0] if c['hb'] else None)
            r = NamedBiogemeFunctionOutput(function_output=o, mapping=mp)
            return {'g': dvec(r.gradient), 'h': dmat(r.hessian), 'b': dmat(r.bhhh)}
        o = BiogemeDisaggregateFunctionOutput(functions=f, gradients=g if c['hg'] else None, hessians=h if c['hh'] else None,
                                              bhhhs=b if c['hb'] else None)
        r = NamedBiogemeDisaggregateFunctionOutput(function_output=o, mapping=mp)
        return {'g': None if r.gradients is None else [dvec(x) for x in r.gradients],
                'h': None if r.hessians is None else [dmat(x) for x in r.hessians],
                'b': None if r.bhhhs is None else [dmat(x) for x in r.bhhhs]}
    except IndexError:
        return {'index_error': True}
    except Exception as e:  # noqa
        return exc(e)


def do_refuse(c):
    from biogeme.expressions import Beta
    from biogeme.exceptions import BiogemeError
    e = Beta('b', 0.5, None, None, 0) * Beta('b', 0.5, None, None, 0)
    out = []
    for g in (True, False):
        for h in (True, False):
            for b in (True, False):
                try:
                    e.get_value_and_derivatives(gradient=g, hessian=h, bhhh=b, aggregation=c['agg'], prepare_ids=True)
                    out.append(False)
                except BiogemeError:
                    out.append(True)
                except Exception as ex:  # noqa
                    out.append(exc(ex))
    return {'refused': out}


KINDS = {'names': do_names, 'convert': do_convert, 'select': do_select, 'unique': do_unique, 'named': do_named, 'refuse': do_refuse}


def main():
    payload = json.load(sys.stdin)
    out = []
    for c in payload['cases']:
        try:
            out.append(KINDS[c['kind']](c))
        except Exception as e:  # noqa
            out.append({'harness_exc': exc(e)})
    print('@@' + json.dumps(out))


main()
