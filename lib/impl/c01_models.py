"""Implementation side of stream C01/history_models: one sub-formula E (the SAME Python object) used by the
formulas of several BIOGEME objects and by separate evaluations.  A script of steps is run:
    ['new', m]        objects[m] = BIOGEME(database, {'f': formula m})            m in E, P, Q
    ['sim', m, k]     objects[m].simulate(value set k)            -> one value per row
    ['gvc', m, k]     formula m .get_value_c(database, betas = value set k, prepare_ids=True); k = null: no dictionary (initial values)
    ['prep', m]       formula m .prepare(database, 0): identifiers stored in the formula
    ['gvp', m, k]     formula m .get_value_c(database, betas = value set k, prepare_ids=False)   (after 'prep')
    ['fn', m, k]      function created ONCE by formula m .create_function(database) called at value set k (sum over rows)
    ['ll', m, k]      objects[m].calculate_likelihood(x_k, scaled=False) when m was built with log_like = formula m
Every value is returned; the harness compares it with the enclosure of the formula at that value set."""
import json, sys, math, warnings, logging
warnings.filterwarnings('ignore')
logging.disable(logging.CRITICAL)
sys.path.insert(0, '/verif/lib/impl')
import pandas as pd
from biogeme.database import Database
from biogeme.biogeme import BIOGEME
from bio_build import build


def enc(v):
    v = float(v)
    return v if math.isfinite(v) else ('minf' if v == -math.inf else 'error')


payload = json.load(sys.stdin)
out = []
poisoned = False
for c in payload['cases']:
    if poisoned:
        out.append(None)
        continue
    res = {'steps': []}
    try:
        cache = {}
        F = {'E': build(c['E'], c['betas'], cache)}
        F['P'] = build(c['P'], c['betas'], cache)     # contains the SAME object E (same sids)
        F['Q'] = build(c['Q'], c['betas'], cache)
        db = Database('t', pd.DataFrame(c['rows']))
        objects, fns = {}, {}
        for step in c['script']:
            op, m = step[0], step[1]
            try:
                if op == 'prep':
                    F[m].prepare(db, 0)
                    res['steps'].append('ok')
                    continue
                if op == 'new':
                    objects[m] = BIOGEME(db, {'f': F[m], 'log_like': F[m]})
                    objects[m].save_iterations = False
                    res['steps'].append('ok')
                    continue
                vals = c['valsets'][step[2] if step[2] is not None else 0]
                free = {k: v for k, v in vals.items() if not c['betas'][k]['fixed']}
                if step[2] is None:
                    free = None          # no dictionary: the initial values of the parameters
                if op == 'sim':
                    names = objects[m].id_manager.free_betas.names
                    df = objects[m].simulate({k: free[k] for k in names})
                    res['steps'].append([enc(x) for x in df['f']])
                elif op == 'gvp':
                    v = F[m].get_value_c(database=db, betas=free, prepare_ids=False)
                    res['steps'].append([enc(x) for x in v])
                elif op == 'gvc':
                    v = F[m].get_value_c(database=db, betas=free, prepare_ids=True)
                    res['steps'].append([enc(x) for x in v])
                elif op == 'fn':
                    if m not in fns:
                        fns[m] = (F[m].create_function(database=db, gradient=False, hessian=False, bhhh=False),
                                  list(F[m].id_manager.free_betas.names))
                    fn, names = fns[m]
                    r = fn([free[k] for k in names])
                    f = r.function if hasattr(r, 'function') else r
                    res['steps'].append({'sum': enc(f), 'names': names})
                elif op == 'll':
                    names = objects[m].id_manager.free_betas.names
                    f = objects[m].calculate_likelihood([free[k] for k in names], scaled=False)
                    res['steps'].append({'sum': enc(f), 'names': list(names)})
                else:
                    res['steps'].append('unknown step')
            except Exception as ex:  # noqa
                res['steps'].append(f'{type(ex).__name__}: {str(ex)[:200]}')
                poisoned = True
                break
    except Exception as ex:  # noqa
        res['build_exc'] = f'{type(ex).__name__}: {str(ex)[:300]}'
    out.append(res)
print('@@' + json.dumps(out))
