"""Implementation side of stream C20/kw_loop: the wrapper of biogeme.deprecated.deprecated_parameters
applied to a probe function, on generated maps and keyword arguments.  Reports, per case, the
keyword arguments received by the probe (in order) and the warnings (kind, old, new) emitted."""
import json
import re
import sys
import warnings

from biogeme.deprecated import deprecated_parameters

cases = json.load(sys.stdin)
out = []
for c in cases:
    try:
        m = {k: v for k, v in c['map']}

        @deprecated_parameters(obsolete_params=m)
        def probe(*args, **kwargs):
            return list(args), list(kwargs.items())

        with warnings.catch_warnings(record=True) as wl:
            warnings.simplefilter('always')
            a, kw = probe(*c['args'], **{k: v for k, v in c['kwargs']})
        ev = []
        for w in wl:
            t = str(w.message)
            m1 = re.fullmatch(r"Parameter '(.*)' is deprecated; use '(.*)=(.*)' instead\.", t)
            m2 = re.fullmatch(r"Parameter '(.*)' is deprecated and is ignored\. It will be removed in a future version\.", t)
            if w.category is not DeprecationWarning:
                ev.append(['other', w.category.__name__, t])
            elif m1:
                ev.append(['renamed', m1.group(1), m1.group(2), m1.group(3)])
            elif m2:
                ev.append(['ignored', m2.group(1)])
            else:
                ev.append(['other', 'DeprecationWarning', t])
        out.append({'ok': True, 'args': a, 'kwargs': kw, 'events': ev})
    except Exception as e:  # noqa
        out.append({'ok': False, 'exc': type(e).__name__, 'msg': str(e)[:200]})
print('@@' + json.dumps(out))
