"""Implementation side of stream C05/build (shared with C06): build choice-model expressions with
the real biogeme builders from a JSON case and return the resulting trees in the JSON form of the
Gallina `expr` (bio_bridge.expr_to_json).  Pure structure; nothing is evaluated.

A Python value (ExpressionOrNumeric) is encoded as {"n": number} or {"e": spec} with
spec := ["Var", name] | ["Beta", name, value, fixed] | ["Num", x] | ["Bin", op, a, b] | ["Un", op, a].
Every exception is caught per case and reported as data."""
import json
import logging
import os
import sys

sys.path.insert(0, os.path.dirname(os.path.abspath(__file__)))
logging.disable(logging.CRITICAL)

from bio_bridge import expr_to_json, dyadic  # noqa: E402
from biogeme.exceptions import BiogemeError  # noqa: E402
from biogeme.expressions import Beta, Variable, Numeric, Expression, exp, log, bioNormalCdf  # noqa: E402
from biogeme import models  # noqa: E402
from biogeme.nests import (OneNestForNestedLogit, NestsForNestedLogit,  # noqa: E402
                           OneNestForCrossNestedLogit, NestsForCrossNestedLogit)

BINOPS = {'Plus': lambda a, b: a + b, 'Minus': lambda a, b: a - b, 'Times': lambda a, b: a * b,
          'Divide': lambda a, b: a / b}


def mk_expr(s):
    t = s[0]
    if t == 'Var':
        return Variable(s[1])
    if t == 'Beta':
        return Beta(s[1], s[2], None, None, int(s[3]))
    if t == 'Num':
        return Numeric(s[1])
    if t == 'Bin':
        return BINOPS[s[1]](mk_expr(s[2]), mk_expr(s[3]))
    if t == 'Un':
        return {'exp': exp, 'log': log}[s[1]](mk_expr(s[2]))
    raise ValueError(f'bad spec {s}')


def mk_pv(p):
    if p is None:
        return None
    if 'n' in p:
        return p['n']
    return mk_expr(p['e'])


def mk_dict(l):
    return None if l is None else {int(k): mk_pv(v) for k, v in l}


def out_pv(v):
    if isinstance(v, Expression):
        return {'e': expr_to_json(v)}
    if isinstance(v, (bool, int, float)):
        return {'n': dyadic(v)}
    raise TypeError(f'not a python value: {v!r}')


def exc_kind(e):
    return {'err': 1 if isinstance(e, BiogemeError) else 2, 'exc': type(e).__name__, 'msg': str(e)[:160]}


def _objects(c, make, spec_cls):
    """nest objects of the case, with the names / the history the case asks for:
    names[j]    : name given by the user to nest j (None: unnamed)
    prev_pos[j] : 1-based position at which the object of nest j was placed in an EARLIER specification
                  (it then carries the name that specification generated for it)"""
    names = c.get('names') or [None] * len(c['nests'])
    prev = c.get('prev_pos') or [None] * len(c['nests'])
    objs = []
    for j, n in enumerate(c['nests']):
        o = make(n, names[j])
        if prev[j]:
            fillers = tuple(make([{'n': 1.0}, []], None) for _ in range(int(prev[j]) - 1))
            spec_cls(choice_set=list(c['choice_set']) + list(_keys(n)), tuple_of_nests=fillers + (o,))
        objs.append(o)
    return tuple(objs)


def _keys(n):
    return [a[0] if isinstance(a, list) else a for a in n[1]]


def nested_args(c, syntax):
    if syntax == 'legacy':
        return tuple((mk_pv(p), list(alts)) for p, alts in c['nests'])
    ns = _objects(c, lambda n, nm: OneNestForNestedLogit(nest_param=mk_pv(n[0]), list_of_alternatives=list(n[1]),
                                                         name=nm), NestsForNestedLogit)
    return NestsForNestedLogit(choice_set=list(c['choice_set']), tuple_of_nests=ns)


def cnl_args(c, syntax):
    if syntax == 'legacy':
        return tuple((mk_pv(p), mk_dict(al)) for p, al in c['nests'])
    ns = _objects(c, lambda n, nm: OneNestForCrossNestedLogit(nest_param=mk_pv(n[0]), dict_of_alpha=mk_dict(n[1]),
                                                              name=nm), NestsForCrossNestedLogit)
    return NestsForCrossNestedLogit(choice_set=list(c['choice_set']), tuple_of_nests=ns)


def dict_result(d, util):
    """dict returned by get_mev_for_*: in the order of util; the key sets must coincide"""
    if set(d.keys()) != set(util.keys()):
        return {'err': 9, 'exc': 'keys-differ', 'msg': f'{sorted(d.keys())} vs {sorted(util.keys())}'}
    return {'dict': [[int(k), out_pv(d[k])] for k in util]}


def build(c, syntax):
    kind = c['kind']
    util = mk_dict(c.get('util'))
    av = mk_dict(c.get('av'))
    choice = mk_pv(c.get('choice'))
    mu = mk_pv(c.get('mu'))
    if kind == 'loglogit':
        return {'tree': expr_to_json(models.loglogit(util, av, choice))}
    if kind == 'logit':
        return {'tree': expr_to_json(models.logit(util, av, choice))}
    if kind in ('logmev_es', 'mev_es'):
        lg = mk_dict(c['log_gi'])
        corr = mk_dict(c['correction'])
        # earlier calls with the SAME dictionaries (one call per alternative / per function, as a user does)
        for f, i in c.get('warmup') or []:
            (models.mev_endogenous_sampling if f == 'P' else models.logmev_endogenous_sampling)(util, lg, av, corr, int(i))
        f = models.logmev_endogenous_sampling if kind == 'logmev_es' else models.mev_endogenous_sampling
        return {'tree': expr_to_json(f(util, lg, av, corr, choice))}
    if kind in ('logmev', 'mev'):
        lg = mk_dict(c['log_gi'])
        f = models.logmev if kind == 'logmev' else models.mev
        return {'tree': expr_to_json(f(util, lg, av, choice))}
    prior = c.get('prior')
    real_util = util
    if prior and util:
        # a HISTORY: the same nests object (and, for 'inplace', the same utility dict) was already used for another
        # model; the tree of the present call must not depend on it
        util = {k: v + 7 for k, v in real_util.items()}

    def settle():
        nonlocal util
        if prior == 'inplace':
            for k in list(util):
                util[k] = real_util[k]
        elif prior:
            util = real_util

    if kind in ('lognested', 'nested', 'lognested_mev_mu', 'nested_mev_mu', 'gen_nested', 'mev_nested',
                'mev_nested_mu'):
        nests = nested_args(c, syntax)
        if prior:
            for f in ((lambda: models.nested(util, av, nests, list(util)[0])),
                      (lambda: models.lognested(util, av, nests, list(util)[0])),
                      (lambda: models.get_mev_for_nested(util, av, nests)),
                      (lambda: models.get_mev_generating_for_nested(util, av, nests))):
                try:
                    f()
                except Exception:  # noqa
                    pass
            settle()
        if kind == 'lognested':
            return {'tree': expr_to_json(models.lognested(util, av, nests, choice))}
        if kind == 'nested':
            return {'tree': expr_to_json(models.nested(util, av, nests, choice))}
        if kind == 'lognested_mev_mu':
            return {'tree': expr_to_json(models.lognested_mev_mu(util, av, nests, choice, mu))}
        if kind == 'nested_mev_mu':
            return {'tree': expr_to_json(models.nested_mev_mu(util, av, nests, choice, mu))}
        if kind == 'mev_nested':
            return dict_result(models.get_mev_for_nested(util, av, nests), util)
        if kind == 'mev_nested_mu':
            return dict_result(models.get_mev_for_nested_mu(util, av, nests, mu), util)
        if kind == 'gen_nested':
            if syntax == 'legacy':
                # the order in which get_mev_generating_for_nested iterates over the set `alone`
                probe = NestsForNestedLogit(choice_set=list(util), tuple_of_nests=nested_args(c, 'legacy'))
            else:
                probe = nests
            order = [int(i) for i in probe.alone]
            return {'tree': expr_to_json(models.get_mev_generating_for_nested(util, av, nests)),
                    'alone_order': order}
    if kind in ('logcnl', 'cnl', 'logcnlmu', 'cnlmu', 'mev_cnl', 'mev_cnl_mu'):
        nests = cnl_args(c, syntax)
        if prior:
            for f in ((lambda: models.cnl(util, av, nests, list(util)[0])),
                      (lambda: models.logcnl(util, av, nests, list(util)[0])),
                      (lambda: models.get_mev_for_cross_nested(util, av, nests))):
                try:
                    f()
                except Exception:  # noqa
                    pass
            settle()
        if kind == 'logcnl':
            return {'tree': expr_to_json(models.logcnl(util, av, nests, choice))}
        if kind == 'cnl':
            return {'tree': expr_to_json(models.cnl(util, av, nests, choice))}
        if kind == 'logcnlmu':
            return {'tree': expr_to_json(models.logcnlmu(util, av, nests, choice, mu))}
        if kind == 'cnlmu':
            return {'tree': expr_to_json(models.cnlmu(util, av, nests, choice, mu))}
        if kind == 'mev_cnl':
            return dict_result(models.get_mev_for_cross_nested(util, av, nests), util)
        if kind == 'mev_cnl_mu':
            return dict_result(models.get_mev_for_cross_nested_mu(util, av, nests, mu), util)
    if kind in ('ordered_logit', 'ordered_probit'):
        x = mk_expr(c['x'])
        tau = mk_pv(c['tau'])
        f = models.ordered_logit if kind == 'ordered_logit' else models.ordered_probit
        d = f(continuous_value=x, list_of_discrete_values=list(c['vals']), tau_parameter=tau)
        return {'dict': [[int(k), out_pv(v)] for k, v in d.items()]}
    raise ValueError(f'unknown kind {kind}')


def alone_probe(c):
    """gen_nested, legacy syntax, when the builder itself raises: still report an order"""
    return None


def object_names(c):
    """names borne by the nests of the object-syntax specification (same construction as build())"""
    kind = c['kind']
    if 'nests' not in c or not (c.get('names') or c.get('prev_pos')):
        return None
    nests = nested_args(c, 'objects') if kind in ('lognested', 'nested', 'lognested_mev_mu', 'nested_mev_mu',
                                                  'gen_nested', 'mev_nested', 'mev_nested_mu') else cnl_args(c, 'objects')
    return [str(n.name) for n in nests]


def run_case(c):
    out = {}
    for syntax in c.get('syntaxes', ['legacy', 'objects']):
        try:
            out[syntax] = build(c, syntax)
            if syntax == 'objects':
                nm = object_names(c)
                if nm is not None:
                    out[syntax]['names'] = nm
        except RecursionError as e:  # pragma: no cover
            out[syntax] = {'err': 2, 'exc': 'RecursionError', 'msg': str(e)[:100]}
        except Exception as e:  # noqa
            out[syntax] = exc_kind(e)
    return out


def main():
    cases = json.load(sys.stdin)
    print('@@' + json.dumps([run_case(c) for c in cases]))


if __name__ == '__main__':
    main()
