"""Implementation side of stream C05/build (shared with C06): build choice-model expressions with
the real biogeme builders from a JSON case and return the resulting trees in the JSON form of the
Gallina `expr` (bio_bridge.expr_to_json).  Pure structure; nothing is evaluated.

A Python value (ExpressionOrNumeric) is encoded as {"n": number} or {"e": spec} with
spec := ["Var", name] | ["Beta", name, value, fixed] | ["Num", x] | ["Bin", op, a, b] | ["Un", op, a].
Every exception is caught per case and reported as data."""
import json
import logging
import os
import sys

sys.path.insert(0, os.path.dirname(os.path.abspath(__file__)))
logging.disable(logging.CRITICAL)

from bio_bridge import expr_to_json, dyadic  # noqa: E402
from biogeme.exceptions import BiogemeError  # noqa: E402
from biogeme.expressions import Beta, Variable, Numeric, Expression, exp, log, bioNormalCdf  # noqa: E402
from biogeme import models  # noqa: E402
from biogeme.nests import (OneNestForNestedLogit, NestsForNestedLogit,  # noqa: E402
                           OneNestForCrossNestedLogit, NestsForCrossNestedLogit)

BINOPS = {'Plus': lambda a, b: a + b, 'Minus': lambda a, b: a - b, 'Times': lambda a, b: a * b,
          'Divide': lambda a, b: a / b}


def mk_expr(s):
    t = s[0]
    if t == 'Var':
        return Variable(s[1])
    if t == 'Beta':
        return Beta(s[1], s[2], None, None, int(s[3]))
    if t == 'Num':
        return Numeric(s[1])
    if t == 'Bin':
        return BINOPS[s[1]](mk_expr(s[2]), mk_expr(s[3]))
    if t == 'Un':
        return {'exp': exp, 'log': log}[s[1]](mk_expr(s[2]))
    raise ValueError(f'bad spec {s}')


def mk_pv(p):
    if p is None:
        return None
    if 'n' in p:
        return p['n']
    return mk_expr(p['e'])


def mk_dict(l):
    return None if l is None else {int(k): mk_pv(v) for k, v in l}


def out_pv(v):
    if isinstance(v, Expression):
        return {'e': expr_to_json(v)}
    if isinstance(v, (bool, int, float)):
        return {'n': dyadic(v)}
    raise TypeError(f'not a python value: {v!r}')


def exc_kind(e):
    return {'err': 1 if isinstance(e, BiogemeError) else 2, 'exc': type(e).__name__, 'msg': str(e)[:160]}


def nested_args(c, syntax):
    if syntax == 'legacy':
        return tuple((mk_pv(p), list(alts)) for p, alts in c['nests'])
    ns = tuple(OneNestForNestedLogit(nest_param=mk_pv(p), list_of_alternatives=list(alts))
               for p, alts in c['nests'])
    return NestsForNestedLogit(choice_set=list(c['choice_set']), tuple_of_nests=ns)


def cnl_args(c, syntax):
    if syntax == 'legacy':
        return tuple((mk_pv(p), mk_dict(al)) for p, al in c['nests'])
    ns = tuple(OneNestForCrossNestedLogit(nest_param=mk_pv(p), dict_of_alpha=mk_dict(al))
               for p, al in c['nests'])
    return NestsForCrossNestedLogit(choice_set=list(c['choice_set']), tuple_of_nests=ns)


def dict_result(d, util):
    """dict returned by get_mev_for_*: in the order of util; the key sets must coincide"""
    if set(d.keys()) != set(util.keys()):
        return {'err': 9, 'exc': 'keys-differ', 'msg': f'{sorted(d.keys())} vs {sorted(util.keys())}'}
    return {'dict': [[int(k), out_pv(d[k])] for k in util]}


def build(c, syntax):
    kind = c['kind']
    util = mk_dict(c.get('util'))
    av = mk_dict(c.get('av'))
    choice = mk_pv(c.get('choice'))
    mu = mk_pv(c.get('mu'))
    if kind == 'loglogit':
        return {'tree': expr_to_json(models.loglogit(util, av, choice))}
    if kind == 'logit':
        return {'tree': expr_to_json(models.logit(util, av, choice))}
    if kind in ('logmev', 'mev'):
        lg = mk_dict(c['log_gi'])
        f = models.logmev if kind == 'logmev' else models.mev
        return {'tree': expr_to_json(f(util, lg, av, choice))}
    if kind in ('lognested', 'nested', 'lognested_mev_mu', 'nested_mev_mu', 'gen_nested', 'mev_nested',
                'mev_nested_mu'):
        nests = nested_args(c, syntax)
        if kind == 'lognested':
            return {'tree': expr_to_json(models.lognested(util, av, nests, choice))}
        if kind == 'nested':
            return {'tree': expr_to_json(models.nested(util, av, nests, choice))}
        if kind == 'lognested_mev_mu':
            return {'tree': expr_to_json(models.lognested_mev_mu(util, av, nests, choice, mu))}
        if kind == 'nested_mev_mu':
            return {'tree': expr_to_json(models.nested_mev_mu(util, av, nests, choice, mu))}
        if kind == 'mev_nested':
            return dict_result(models.get_mev_for_nested(util, av, nests), util)
        if kind == 'mev_nested_mu':
            return dict_result(models.get_mev_for_nested_mu(util, av, nests, mu), util)
        if kind == 'gen_nested':
            if syntax == 'legacy':
                # the order in which get_mev_generating_for_nested iterates over the set `alone`
                probe = NestsForNestedLogit(choice_set=list(util), tuple_of_nests=nested_args(c, 'legacy'))
            else:
                probe = nests
            order = [int(i) for i in probe.alone]
            return {'tree': expr_to_json(models.get_mev_generating_for_nested(util, av, nests)),
                    'alone_order': order}
    if kind in ('logcnl', 'cnl', 'logcnlmu', 'cnlmu', 'mev_cnl', 'mev_cnl_mu'):
        nests = cnl_args(c, syntax)
        if kind == 'logcnl':
            return {'tree': expr_to_json(models.logcnl(util, av, nests, choice))}
        if kind == 'cnl':
            return {'tree': expr_to_json(models.cnl(util, av, nests, choice))}
        if kind == 'logcnlmu':
            return {'tree': expr_to_json(models.logcnlmu(util, av, nests, choice, mu))}
        if kind == 'cnlmu':
            return {'tree': expr_to_json(models.cnlmu(util, av, nests, choice, mu))}
        if kind == 'mev_cnl':
            return dict_result(models.get_mev_for_cross_nested(util, av, nests), util)
        if kind == 'mev_cnl_mu':
            return dict_result(models.get_mev_for_cross_nested_mu(util, av, nests, mu), util)
    if kind in ('ordered_logit', 'ordered_probit'):
        x = mk_expr(c['x'])
        tau = mk_pv(c['tau'])
        f = models.ordered_logit if kind == 'ordered_logit' else models.ordered_probit
        d = f(continuous_value=x, list_of_discrete_values=list(c['vals']), tau_parameter=tau)
        return {'dict': [[int(k), out_pv(v)] for k, v in d.items()]}
    raise ValueError(f'unknown kind {kind}')


def alone_probe(c):
    """gen_nested, legacy syntax, when the builder itself raises: still report an order"""
    return None


def run_case(c):
    out = {}
    for syntax in c.get('syntaxes', ['legacy', 'objects']):
        try:
            out[syntax] = build(c, syntax)
        except RecursionError as e:  # pragma: no cover
            out[syntax] = {'err': 2, 'exc': 'RecursionError', 'msg': str(e)[:100]}
        except Exception as e:  # noqa
            out[syntax] = exc_kind(e)
    return out


def main():
    cases = json.load(sys.stdin)
    print('@@' + json.dumps([run_case(c) for c in cases]))


if __name__ == '__main__':
    main()
