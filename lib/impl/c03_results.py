"""Implementation side of stream C03/results_names: a synthetic results object whose every number is
TAGGED by the parameter it belongs to (estimate of parameter j = 10+j, bootstrap column j = 100*j + row,
bounds = (-(j+1), j+1)), then every name-based accessor of bioResults is called with sub-lists and
re-ordered lists of names."""
import datetime, json, sys, types, warnings
warnings.filterwarnings('ignore')
import numpy as np
from biogeme.results import RawResults, bioResults
from biogeme.function_output import BiogemeFunctionOutput

payload = json.load(sys.stdin)
out = []
for c in payload['cases']:
    res = {}
    try:
        names = c['names']                 # already in the library's (sorted) order
        K = len(names)
        betas = [10.0 + j for j in range(K)]
        bounds = {n: (-(j + 1.0), j + 1.0) for j, n in enumerate(names)}
        H = -np.diag([1.0 + j for j in range(K)])
        Bm = np.diag([2.0 + j for j in range(K)])
        boot = np.array([[100.0 * j + r for j in range(K)] for r in range(c['B'])]) if c['B'] else None
        db = types.SimpleNamespace(name='synthetic', get_sample_size=lambda: 50, get_number_of_observations=lambda: 50,
                                   typesOfDraws={}, excludedData=0)
        model = types.SimpleNamespace(
            modelName='synthetic_model', user_notes='',
            id_manager=types.SimpleNamespace(free_betas=types.SimpleNamespace(names=names)),
            initLogLike=-120.0, nullLogLike=-130.0, get_bounds_on_beta=lambda n: bounds[n], database=db,
            monte_carlo=False, number_of_draws=0, drawsProcessingTime=datetime.timedelta(seconds=1),
            optimizationMessages={}, convergence=True, number_of_threads=1, bootstrap_time=datetime.timedelta(seconds=2))
        raw = RawResults(model, betas, BiogemeFunctionOutput(function=-100.0, gradient=np.zeros(K), hessian=H, bhhh=Bm), bootstrap=boot)
        r = bioResults(raw)
        res['get_beta_values_all'] = r.get_beta_values()
        res['requests'] = []
        for req in c['requests']:
            q = {'names': req}
            try:
                q['get_beta_values'] = r.get_beta_values(req)
            except Exception as ex:  # noqa
                q['get_beta_values_exc'] = f'{type(ex).__name__}: {str(ex)[:120]}'
            if boot is not None:
                try:
                    q['sens_boot'] = r.get_betas_for_sensitivity_analysis(req, size=c['B'], use_bootstrap=True)
                except Exception as ex:  # noqa
                    q['sens_boot_exc'] = f'{type(ex).__name__}: {str(ex)[:120]}'
            try:
                cr = r.get_correlation_results(subset=req)
                q['corr_labels'] = list(cr.index)
            except Exception as ex:  # noqa
                q['corr_exc'] = f'{type(ex).__name__}: {str(ex)[:120]}'
            res['requests'].append(q)
        ep = r.get_estimated_parameters(only_robust=False)
        res['estimated'] = {n: float(ep.loc[n, 'Value']) for n in ep.index}
        vc = r.get_var_covar()
        res['varcovar_diag'] = {n: float(vc.loc[n, n]) for n in vc.index}
        res['betas_lb'] = {b.name: b.lb for b in r.data.betas}
        res['betas_val'] = {b.name: b.value for b in r.data.betas}
        res['stderr'] = {b.name: float(b.stdErr) for b in r.data.betas}
    except Exception as ex:  # noqa
        res['exc'] = f'{type(ex).__name__}: {str(ex)[:300]}'
    out.append(res)
print('@@' + json.dumps(out, default=float))
