"""Implementation side of stream C01/history_shared: one sub-formula E shared by two parents P and Q;
P holds persistent ids (IdManager set once); then E alone and Q are evaluated with prepare_ids=True in
between evaluations of P (prepare_ids=False).  Every value is returned."""
import json, sys, math, warnings
warnings.filterwarnings('ignore')
sys.path.insert(0, '/verif/lib/impl')
import pandas as pd
from biogeme.database import Database
from biogeme.expressions import IdManager
from bio_build import build


def enc(v):
    v = float(v)
    return v if math.isfinite(v) else ('minf' if v == -math.inf else 'error')


payload = json.load(sys.stdin)
out = []
poisoned = False
for c in payload['cases']:
    if poisoned:
        out.append(None)
        continue
    res = {'steps': []}
    try:
        cache = {}
        E = build(c['E'], c['betas'], cache)
        P = build(c['P'], c['betas'], cache)     # contains the SAME object E (same sids)
        Q = build(c['Q'], c['betas'], cache)
        db = Database('t', pd.DataFrame(c['rows']))
        idm = IdManager([P], db, 0)
        P.set_id_manager(idm)
        vals = {k: v['value'] for k, v in c['betas'].items() if not v['fixed']}
        for who in c['script']:
            try:
                if who == 'P':
                    v = P.get_value_c(database=db, betas=vals, prepare_ids=False)
                elif who == 'E':
                    v = E.get_value_c(database=db, betas=vals, prepare_ids=True)
                else:
                    v = Q.get_value_c(database=db, betas=vals, prepare_ids=True)
                res['steps'].append([enc(x) for x in v])
            except Exception as ex:  # noqa
                res['steps'].append(f'{type(ex).__name__}: {str(ex)[:160]}')
                poisoned = True
                break
    except Exception as ex:  # noqa
        res['build_exc'] = f'{type(ex).__name__}: {str(ex)[:300]}'
    out.append(res)
print('@@' + json.dumps(out))
