"""Implementation side of the C17 streams (build17 / values17 / segcode / corr17).

stdin: {'cases': [case, ...]}        stdout: '@@' + json list of results (one per case)

A case names a helper and its arguments in a small JSON language; the runner builds the
biogeme expression with the real helper, converts it with the expression bridge and, when
`rows` is given, evaluates it with the engine on those rows.  Every exception is data.

argument language (an `arg`):
    {'var': name} | {'beta': name, 'value': float, 'fixed': bool}
    {'numeric': float}   a Numeric(...) object        {'float': float} a bare Python float
    {'int': n}           a bare Python int
    {'op': 'Plus'|'Minus'|'Times'|'Divide', 'args': [arg, arg]}
    {'un': 'exp'|'neg', 'arg': arg}
floats travel as float.hex() strings.
"""
import json
import math
import sys
import os

sys.path.insert(0, os.path.dirname(os.path.abspath(__file__)))


def fl(x):
    if x is None:
        return None
    if isinstance(x, str):
        return float.fromhex(x)
    return x  # ints stay ints


def build_arg(a):
    from biogeme.expressions import Beta, Variable, Numeric, exp
    if 'var' in a:
        return Variable(a['var'])
    if 'beta' in a:
        return Beta(a['beta'], fl(a['value']), None, None, 1 if a.get('fixed') else 0)
    if 'numeric' in a:
        return Numeric(fl(a['numeric']))
    if 'float' in a:
        return fl(a['float'])
    if 'int' in a:
        return int(a['int'])
    if 'op' in a:
        l, r = build_arg(a['args'][0]), build_arg(a['args'][1])
        return {'Plus': lambda: l + r, 'Minus': lambda: l - r, 'Times': lambda: l * r,
                'Divide': lambda: l / r}[a['op']]()
    if 'un' in a:
        c = build_arg(a['arg'])
        return exp(c) if a['un'] == 'exp' else -c
    raise ValueError(f'bad arg {a}')


def thresholds(ts):
    return [None if t is None else fl(t) for t in ts]


def build(case):
    """returns an Expression, or a list of Expressions (piecewise_variables)"""
    k = case['kind']
    if k in ('pwvars', 'pwformula', 'pwasvar'):
        from biogeme.models import piecewise as pw
        from biogeme.expressions import Variable
        v = Variable(case['name']) if case.get('as_object') else case['name']
        ts = thresholds(case['ts'])
        if k == 'pwvars':
            return pw.piecewise_variables(v, ts)
        betas = None if case.get('betas') is None else [build_arg(b) for b in case['betas']]
        if k == 'pwformula':
            return pw.piecewise_formula(v, ts, betas)
        return pw.piecewise_as_variable(v, ts, betas)
    if k == 'boxcox':
        from biogeme.models.boxcox import boxcox
        return boxcox(build_arg(case['x']), build_arg(case['ell']))
    if k in ('normalpdf', 'lognormalpdf', 'uniformpdf', 'triangularpdf', 'logisticcdf'):
        from biogeme import distributions as D
        return getattr(D, k)(*[build_arg(a) for a in case['args']])
    if k in ('loglikelihoodregression', 'likelihoodregression'):
        from biogeme import loglikelihood as L
        return getattr(L, k)(*[build_arg(a) for a in case['args']])
    if k == 'segmented':
        return build_segmentation(case).segmented_beta()
    raise ValueError(f'unknown kind {k}')


def build_segmentation(case):
    from biogeme.expressions import Beta, Variable
    from biogeme.segmentation import DiscreteSegmentationTuple, Segmentation
    b = case['beta']
    beta = Beta(b['name'], fl(b['value']), fl(b.get('lb')), fl(b.get('ub')), b.get('status', 0))
    tuples = []
    for s in case['segs']:
        var = Variable(s['var']) if s.get('as_object') else s['var']
        mapping = {int(v): c for v, c in s['mapping']}
        tuples.append(DiscreteSegmentationTuple(var, mapping, reference=s.get('ref')))
    if case.get('via_function'):
        from biogeme.segmentation import segmented_beta

        class _W:  # same interface
            def __init__(self, e):
                self.e = e

            def segmented_beta(self):
                return self.e

        return _W(segmented_beta(beta, tuples))
    return Segmentation(beta, tuples, prefix=case.get('prefix', 'segmented'))


def beta_attrs(e):
    """(name, initValue, lb, ub, status) of every Beta in the tree, in depth-first order"""
    out = []

    def go(x):
        if type(x).__name__ == 'Beta':
            out.append([x.name, float(x.initValue).hex(), None if x.lb is None else float(x.lb).hex(),
                        None if x.ub is None else float(x.ub).hex(), int(x.status)])
        for c in x.get_children():
            go(c)

    go(e)
    return out


def evaluate(e, rows, betas):
    """engine values of e on each row"""
    import pandas as pd
    import biogeme.database as db
    cols = sorted({k for r in rows for k in r})
    df = pd.DataFrame({c: [fl(r[c]) for r in rows] for c in cols} if cols else {'_dummy': [0.0] * len(rows)})
    if '_dummy' not in df.columns:
        df['_dummy'] = 0.0
    d = db.Database('c17', df)
    bv = {k: fl(v) for k, v in (betas or {}).items()}
    vals = e.get_value_c(database=d, betas=bv, prepare_ids=True)
    return [float(v) for v in vals]


def fixed_betas(e):
    out = {}

    def go(x):
        if type(x).__name__ == 'Beta':
            out[x.name] = float(x.initValue)
        for c in x.get_children():
            go(c)

    go(e)
    return out


def run_case(case):
    from bio_bridge import expr_to_json
    res = {}
    try:
        if case['kind'] == 'segcode':
            return run_segcode(case)
        if case['kind'] == 'pwfunction':
            from biogeme.models.piecewise import piecewise_function
            r = piecewise_function(fl(case['x']), thresholds(case['ts']), [fl(b) for b in case['betas']])
            return {'ok': True, 'value': float(r).hex()}
        if case['kind'] == 'nlcorr':
            return run_nlcorr(case)
        e = build(case)
    except Exception as ex:  # noqa
        return {'ok': False, 'stage': 'build', 'exc': type(ex).__name__, 'msg': str(ex)[:300]}
    try:
        if isinstance(e, list):
            res = {'ok': True, 'trees': [expr_to_json(x) for x in e]}
        else:
            res = {'ok': True, 'tree': expr_to_json(e), 'betas': beta_attrs(e)}
    except Exception as ex:  # noqa
        return {'ok': False, 'stage': 'bridge', 'exc': type(ex).__name__, 'msg': str(ex)[:300]}
    if case.get('rows'):
        try:
            if isinstance(e, list):
                res['values'] = [[float(v).hex() for v in evaluate(x, case['rows'], case.get('beta_values'))] for x in e]
            else:
                res['values'] = [float(v).hex() for v in evaluate(e, case['rows'], case.get('beta_values'))]
        except Exception as ex:  # noqa
            res['eval_error'] = {'exc': type(ex).__name__, 'msg': str(ex)[:300]}
    return res


def run_segcode(case):
    """exec the text of segmented_code() in a fresh namespace; compare with segmented_beta()"""
    from bio_bridge import expr_to_json
    S = build_segmentation(case)
    direct = S.segmented_beta()
    code = S.segmented_code()
    ns = {}
    exec('from biogeme.expressions import Beta, Variable, bioMultSum, Numeric', ns)
    before = set(ns)
    res = {'ok': True, 'code': code, 'direct': expr_to_json(direct), 'direct_betas': beta_attrs(direct)}
    try:
        exec(code, ns)
    except Exception as ex:  # noqa
        res['exec_error'] = {'exc': type(ex).__name__, 'msg': str(ex)[:300]}
        return res
    name = f"{case.get('prefix', 'segmented')}_{case['beta']['name']}"
    res['defined'] = sorted(k for k in set(ns) - before if not k.startswith('__'))
    if name in ns:
        rebuilt = ns[name]
    else:
        # a segmentation without any non-reference category: the code is the bare Beta(...) expression
        try:
            rebuilt = eval(code.strip().splitlines()[-1], ns)
            res['bare'] = True
        except Exception as ex:  # noqa
            res['exec_error'] = {'exc': type(ex).__name__, 'msg': f'{name} not defined by the code; {ex}'[:300]}
            return res
    try:
        res['rebuilt'] = expr_to_json(rebuilt)
        res['rebuilt_betas'] = beta_attrs(rebuilt)
    except Exception as ex:  # noqa
        res['exec_error'] = {'exc': type(ex).__name__, 'msg': str(ex)[:300]}
    return res


def run_nlcorr(case):
    from biogeme.nests import OneNestForNestedLogit, NestsForNestedLogit
    from biogeme.expressions import Beta
    nests = []
    for i, (mu_m, alts) in enumerate(case['nests']):
        p = fl(mu_m)
        if case.get('as_beta'):
            p = Beta(f'mu_{i}', p, None, None, 0)
        nests.append(OneNestForNestedLogit(nest_param=p, list_of_alternatives=list(alts), name=f'n{i}'))
    N = NestsForNestedLogit(choice_set=list(case['choice_set']), tuple_of_nests=tuple(nests))
    kw = {}
    if case.get('mu') is not None:
        kw['mu'] = fl(case['mu'])
    df = N.correlation(**kw)
    return {'ok': True, 'matrix': [[float(v).hex() for v in row] for row in df.to_numpy()],
            'labels': [str(x) for x in df.index]}


def main():
    import logging
    logging.disable(logging.CRITICAL)
    payload = json.load(sys.stdin)
    out = []
    for c in payload['cases']:
        try:
            out.append(run_case(c))
        except Exception as ex:  # noqa
            out.append({'ok': False, 'stage': 'runner', 'exc': type(ex).__name__, 'msg': str(ex)[:300]})
    print('@@' + json.dumps(out))


main()
