"""Implementation side of the C19 streams.  Reads a list of cases on stdin, prints `@@<json>`.

Every case is run independently; any exception is reported as data ({'ok': False, ...}).

case = {
  'kind': 'sample' | 'full' | 'validate' | 'segsize',
  ... (see lib/props/C19.py: the generators) }
"""
import copy
import json
import logging
import math
import os
import sys
import traceback

sys.path.insert(0, os.path.dirname(os.path.abspath(__file__)))

cases = json.load(sys.stdin)

try:
    import numpy as np
    import pandas as pd

    logging.disable(logging.CRITICAL)

    from biogeme.partition import Partition
    from biogeme.database import Database
    from biogeme.expressions import Variable, Beta, Numeric, log, exp
    from biogeme import models
    from biogeme.sampling_of_alternatives import (
        SamplingContext, ChoiceSetsGeneration, GenerateModel, SamplingOfAlternatives, CrossVariableTuple,
        StratumTuple, generate_segment_size,
    )
    from bio_bridge import expr_to_json
except BaseException as e:  # noqa  (a broken source tree is reported as data for every case)
    msg = f'import failed: {type(e).__name__}: {e}'[:400]
    print('@@' + json.dumps([{'ok': False, 'exc': msg} for _ in cases]))
    sys.exit(0)

try:  # silence the progress bars
    import tqdm as _tqdm

    class _Quiet(_tqdm.tqdm):
        def __init__(self, *a, **k):
            k['disable'] = True
            super().__init__(*a, **k)

    import biogeme.sampling_of_alternatives.choice_set_generation as _csg
    _csg.tqdm = _Quiet
    _Quiet.pandas()
except Exception:  # noqa
    pass


# ---------------------------------------------------------------- formulas (mini language -> biogeme)
def build(t):
    op = t[0]
    if op == 'var':
        return Variable(t[1])
    if op == 'num':
        return Numeric(t[1])
    if op == 'beta':
        return Beta(t[1], t[2], None, None, 0)
    if op == 'sq':  # the SAME object twice (shared sub-expression)
        x = build(t[1])
        return x * x
    if op == 'neg':
        return -build(t[1])
    if op == 'log':
        return log(build(t[1]))
    if op == 'exp':
        return exp(build(t[1]))
    a, b = build(t[1]), build(t[2])
    if op == '+':
        return a + b
    if op == '-':
        return a - b
    if op == '*':
        return a * b
    if op == '/':
        return a / b
    raise ValueError(f'unknown op {op}')


def mu_of(n):
    """nest parameter: a Beta, or a plain Python float when the case says so"""
    return float(n['mu']) if n.get('mu_num') else Beta(n['mu_name'], n['mu'], 1, None, 0)


def cell(x):
    """a data cell as JSON: float (exact through repr) or None for NaN / missing"""
    if x is None:
        return None
    x = float(x)
    if math.isnan(x):
        return None
    if math.isinf(x):
        return 'inf' if x > 0 else '-inf'
    return x


def frame_json(df):
    return {'columns': [str(c) for c in df.columns],
            'rows': [[cell(v) for v in row] for row in df.itertuples(index=False, name=None)]}


def make_context(c, full=False):
    alts = pd.DataFrame(c['alts'], columns=c['alt_cols'])
    inds = pd.DataFrame(c['inds'], columns=c['ind_cols'])
    for col, t in c.get('alt_int_cols', {}).items():
        alts[col] = alts[col].astype(t)
    if c.get('alt_index') is not None:
        # the row LABELS of the table (a permutation of 0..J-1 after a sort / reorder without reset_index,
        # or arbitrary integers); the default is the RangeIndex
        alts.index = pd.Index([int(x) for x in c['alt_index']])
    for col, t in c.get('ind_int_cols', {}).items():
        inds[col] = inds[col].astype(t)
    part = Partition([set(s) for s in c['segments']], full_set=set(c['full_set']) if c.get('full_set') else None)
    mev_part = None
    if c.get('mev_segments') is not None:
        mev_part = Partition([set(s) for s in c['mev_segments']],
                             full_set=set(c['mev_full_set']) if c.get('mev_full_set') else None)
    combined = [CrossVariableTuple(cv['name'], build(cv['formula'])) for cv in c['combined']]
    kw = {}
    if c.get('cnl'):
        from biogeme.nests import OneNestForCrossNestedLogit, NestsForCrossNestedLogit
        nests = tuple(OneNestForCrossNestedLogit(nest_param=mu_of(n),
                                                 dict_of_alpha={int(k): float(v) for k, v in n['alphas']},
                                                 name=n['name']) for n in c['cnl'])
        kw['cnl_nests'] = NestsForCrossNestedLogit(choice_set=[int(r[0]) for r in c['alts']], tuple_of_nests=nests)
    context = SamplingContext(
        the_partition=part, sample_sizes=list(c['sizes']), individuals=inds, choice_column=c['choice_col'],
        alternatives=alts, id_column=c['id_col'], biogeme_file_name='c19_merged.csv',
        utility_function=build(c['utility']), combined_variables=combined,
        mev_partition=mev_part, mev_sample_sizes=list(c['mev_sizes']) if c.get('mev_sizes') is not None else None, **kw)
    return context, alts, inds


def run_sample(c):
    out = {'ok': True}
    context, alts, inds = make_context(c)
    out['alt_columns'] = [str(x) for x in context.alternatives.columns]
    # ---- (1) the sampling functions themselves, one individual at a time
    soa = SamplingOfAlternatives(context)
    np.random.seed(c['seed'])
    direct = []
    for choice in inds[c['choice_col']]:
        d = {}
        try:
            d['first'] = frame_json(soa.sample_alternatives(chosen=choice))
            if context.second_partition is not None:
                d['second'] = frame_json(soa.sample_mev_alternatives())
        except Exception as e:  # noqa
            d['exc'] = f'{type(e).__name__}: {e}'[:300]
        direct.append(d)
    out['direct'] = direct
    # ---- (2) the whole pipeline; capture the expressions handed to define_variable
    captured = []
    orig = Database.define_variable

    def spy(self, name, expression):
        try:
            captured.append({'name': name, 'expr': expr_to_json(expression)})
        except Exception as e:  # noqa
            captured.append({'name': name, 'error': f'{type(e).__name__}: {e}'[:200]})
        return orig(self, name, expression)

    Database.define_variable = spy
    try:
        np.random.seed(c['seed'] + 1)
        gen = ChoiceSetsGeneration(context)
        before = sorted(os.listdir('.'))
        db = gen.sample_and_merge(recycle=False)
        out['files_written'] = sorted(set(os.listdir('.')) - set(before))
    finally:
        Database.define_variable = orig
    out['merged'] = frame_json(db.data)
    out['defined'] = captured
    out['total_sample_size'] = int(context.total_sample_size)
    out['second_sample_size'] = None if context.second_sample_size is None else int(context.second_sample_size)
    try:
        out['csv_columns'] = list(pd.read_csv('c19_merged.csv').columns)
    except Exception as e:  # noqa
        out['csv_columns'] = f'{type(e).__name__}: {e}'[:200]
    return out


def rename_copy(e, names, suffix):
    c = copy.deepcopy(e)
    c.rename_elementary(names, suffix=suffix)
    return c


def run_full(c):
    """fully sampled strata: log likelihood on the sample vs the model on the full choice set"""
    out = {'ok': True}
    context, alts, inds = make_context(c)
    np.random.seed(c['seed'])
    db = ChoiceSetsGeneration(context).sample_and_merge(recycle=False)
    gm = GenerateModel(context)
    out['attributes'] = sorted(str(a) for a in context.attributes)
    out['J'] = int(context.total_sample_size)
    idc, chc = c['id_col'], c['choice_col']
    # the wide data base of the full model: every alternative's attributes, suffixed by its id,
    # and the combined variables computed by the harness-side evaluator (sent with the case)
    wide_rows = []
    attr_cols = [a for a in c['alt_cols'] if a != idc]
    for i, r in enumerate(c['inds']):
        d = dict(zip(c['ind_cols'], r))
        for a in c['alts']:
            ad = dict(zip(c['alt_cols'], a))
            for col in attr_cols:
                d[f'{col}_{int(ad[idc])}'] = ad[col]
        for (name, aid), v in zip(c['full_cv_keys'], c['full_cv_values'][i]):
            d[f'{name}_{aid}'] = v
        wide_rows.append(d)
    wide = Database('c19_full', pd.DataFrame(wide_rows))
    names = attr_cols + [cv['name'] for cv in c['combined']]
    V = build(c['utility'])
    Vfull = {int(a[0]): rename_copy(V, names, f'_{int(a[0])}') for a in c['alts']}
    res = {}

    def both(tag, sampled_thunk, full_thunk):
        """each side is BUILT and evaluated under its own try: a refusal by a validator is data"""
        r = {}
        try:
            sampled_expr = sampled_thunk()
            r['tree'] = expr_to_json(sampled_expr)
            r['sample'] = [cell(x) for x in np.atleast_1d(sampled_expr.get_value_c(database=db, prepare_ids=True))]
        except Exception as e:  # noqa
            r['sample_exc'] = f'{type(e).__name__}: {e}'[:300]
        if full_thunk is not None:
            try:
                full_expr = full_thunk()
                r['full'] = [cell(x) for x in np.atleast_1d(full_expr.get_value_c(database=wide, prepare_ids=True))]
            except Exception as e:  # noqa
                r['full_exc'] = f'{type(e).__name__}: {e}'[:300]
        res[tag] = r

    # partial = the strata are NOT fully sampled: only the value on the sample is wanted (compared by the
    # harness with the closed form of the corrected logit)
    both('logit', gm.get_logit, None if c.get('partial') else (lambda: models.loglogit(Vfull, None, Variable(chc))))
    if c.get('nested'):
        from biogeme.nests import OneNestForNestedLogit, NestsForNestedLogit
        ids = [int(a[0]) for a in c['alts']]

        def mk():
            return NestsForNestedLogit(choice_set=ids, tuple_of_nests=tuple(
                OneNestForNestedLogit(mu_of(n), list(n['alts']), name=n['name'])
                for n in c['nested']))
        both('nested', lambda: gm.get_nested_logit(mk()), lambda: models.lognested(Vfull, None, mk(), Variable(chc)))
    if c.get('cnl'):
        both('cnl', gm.get_cross_nested_logit, lambda: models.logcnl(Vfull, None, context.cnl_nests, Variable(chc)))
    out['results'] = res
    out['sample_ids'] = [[cell(db.data[f'{idc}_{j}'].iloc[i]) for j in range(out['J'])] for i in range(len(c['inds']))]
    out['log_proba'] = [[cell(db.data[f'_log_proba_{j}'].iloc[i]) for j in range(out['J'])] for i in range(len(c['inds']))]
    JM = 0 if context.second_sample_size is None else int(context.second_sample_size)
    out['JM'] = JM
    nind = len(c['inds'])

    def col(name, n):
        try:
            return [[cell(db.data[f'{name}_{j}'].iloc[i]) for j in range(n)] for i in range(nind)]
        except Exception as e:  # noqa
            return f'{type(e).__name__}: {e}'[:200]
    if JM:
        out['mev_ids'] = col(f'_MEV_{idc}', JM)
        out['mev_weight'] = col('_MEV__mev_weight', JM)
    if c.get('cnl'):
        out['cnl_cols'] = {n['name']: {'first': col(f'_CNL_{n["name"]}', out['J']),
                                       'mev': col(f'_MEV__CNL_{n["name"]}', JM)} for n in c['cnl']}
    return out


def run_validate(c):
    out = {'ok': True}
    try:
        Partition([set(s) for s in c['segments']], full_set=None if c['full_set'] is None else set(c['full_set']))
        out['partition'] = 'accepted'
    except ValueError as e:
        out['partition'] = 'ValueError'
        out['partition_msg'] = str(e)[:120]
    except Exception as e:  # noqa
        out['partition'] = type(e).__name__
        out['partition_msg'] = str(e)[:120]
    # check_partition in isolation (the constructor performs many unrelated checks)
    obj = object.__new__(SamplingContext)
    obj.partition = [StratumTuple(subset=set(s), sample_size=k) for s, k in zip(c['segments'], c['sizes'])]
    obj.alternatives = pd.DataFrame({'alt_id': c['table']}, index=c.get('table_index'))
    obj.id_column = 'alt_id'
    try:
        obj.check_partition()
        out['check_partition'] = 'accepted'
    except Exception as e:  # noqa
        out['check_partition'] = type(e).__name__
        out['check_partition_msg'] = str(e)[:120]
    return out


def run_segsize(c):
    try:
        return {'ok': True, 'value': [int(x) for x in generate_segment_size(c['s'], c['m'])]}
    except ValueError as e:
        return {'ok': True, 'value': None, 'exc': 'ValueError'}


RUN = {'sample': run_sample, 'full': run_full, 'validate': run_validate, 'segsize': run_segsize}

results = []
root = os.getcwd()
for n, c in enumerate(cases):
    wd = os.path.join(root, f'case{n}')
    os.makedirs(wd, exist_ok=True)
    os.chdir(wd)
    try:
        results.append(RUN[c['kind']](c))
    except Exception as e:  # noqa
        results.append({'ok': False, 'exc': f'{type(e).__name__}: {e}'[:400],
                        'tb': traceback.format_exc()[-1500:]})
    finally:
        os.chdir(root)
print('@@' + json.dumps(results))
