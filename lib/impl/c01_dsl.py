"""Implementation side of stream C01/dsl: the formula is written with PYTHON OPERATORS (+ - * / ** & | == != <= >= < > unary -,
reflected forms with plain numbers / booleans on the left) instead of constructors; the tree the library builds is returned
together with the engine value per row."""
import json, sys, math, warnings
warnings.filterwarnings('ignore')
sys.path.insert(0, '/verif/lib/impl')
import pandas as pd
from biogeme.database import Database
from biogeme.expressions import Beta, Variable, Numeric, exp, log, bioMin, bioMax
from bio_bridge import expr_to_json


def enc(v):
    v = float(v)
    return v if math.isfinite(v) else ('minf' if v == -math.inf else 'error')


def py(n, betas):
    """builds with Python syntax; a Num leaf marked 'lit' is passed as a plain Python number / bool"""
    h, k = n['h'], n['k']
    t = h[0]
    if t == 'Num':
        v = math.ldexp(h[1], h[2])
        if n.get('lit') == 'bool':
            return bool(v)
        if n.get('lit') == 'int':
            return int(v)
        if n.get('lit') == 'float':
            return v
        return Numeric(v)
    if t == 'Beta':
        b = betas[h[1]]
        return Beta(h[1], b['value'], None, None, 1 if h[2] else 0)
    if t == 'Var':
        return Variable(h[1])
    if t == 'Un':
        a = py(k[0], betas)
        return {'UMinus': lambda: -a, 'Exp': lambda: exp(a), 'Log': lambda: log(a)}[h[1]]()
    if t == 'PowC':
        return py(k[0], betas) ** math.ldexp(h[1], h[2])
    a, b = py(k[0], betas), py(k[1], betas)
    op = h[1]
    return {'Plus': lambda: a + b, 'Minus': lambda: a - b, 'Times': lambda: a * b, 'Divide': lambda: a / b,
            'Power': lambda: a ** b, 'And': lambda: a & b, 'Or': lambda: a | b, 'Eq': lambda: a == b, 'Ne': lambda: a != b,
            'Le': lambda: a <= b, 'Ge': lambda: a >= b, 'Lt': lambda: a < b, 'Gt': lambda: a > b,
            'BMin': lambda: bioMin(a, b), 'BMax': lambda: bioMax(a, b)}[op]()


payload = json.load(sys.stdin)
out = []
poisoned = False
for c in payload['cases']:
    if poisoned:
        out.append(None)
        continue
    res = {}
    try:
        e = py(c['tree'], c['betas'])
        res['built'] = expr_to_json(e)
        db = Database('t', pd.DataFrame(c['rows']))
        try:
            vals = e.get_value_c(database=db, prepare_ids=True)
            res['engine'] = [enc(v) for v in vals]
        except Exception as ex:  # noqa
            res['engine_exc'] = f'{type(ex).__name__}: {str(ex)[:160]}'
            poisoned = True
    except Exception as ex:  # noqa
        res['build_exc'] = f'{type(ex).__name__}: {str(ex)[:300]}'
    out.append(res)
print('@@' + json.dumps(out))
