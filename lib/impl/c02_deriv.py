"""Implementation side of the C02 stream `deriv_engine`.

For every case (tree, parameter table, data rows) it builds the expression (with sharing) and reports
  * get_value_and_derivatives in all 2x2x2 (gradient, hessian, bhhh) x 2 (aggregation) modes:
    the arrays, or the exception raised;
  * the same with named_results=True (aggregated and per observation);
  * the same formula with the free parameters renamed by an order-reversing bijection;
  * BIOGEME.calculate_likelihood_and_derivatives, scaled and not, with the names BIOGEME reports;
  * for cases flagged `third_opinion`: finite differences (biogeme.tools.derivatives / central
    differences on get_value_c).
Exceptions are data.  After an engine exception the process is poisoned (the engine keeps re-raising
the first exception): the remaining cases are returned as None and re-run by the harness."""
import json
import logging
import math
import sys
import warnings

warnings.filterwarnings('ignore')
logging.disable(logging.CRITICAL)
sys.path.insert(0, '/verif/lib/impl')
import numpy as np  # noqa: E402
import pandas as pd  # noqa: E402
from biogeme.database import Database  # noqa: E402
from bio_build import build  # noqa: E402
from bio_bridge import expr_to_json  # noqa: E402


def arr(a):
    if a is None:
        return None
    return np.asarray(a, dtype=float).tolist()


def exc(e):
    return {'exc': type(e).__name__, 'msg': str(e)[:200]}


def out_agg(r):
    return {'f': float(r.function), 'g': arr(r.gradient), 'h': arr(r.hessian), 'b': arr(r.bhhh)}


def out_dis(r):
    return {'f': arr(r.functions), 'g': arr(r.gradients), 'h': arr(r.hessians), 'b': arr(r.bhhhs)}


def named_mat(m):
    if m is None:
        return None
    return {k: {k2: float(v2) for k2, v2 in row.items()} for k, row in m.items()}


def named_vec(v):
    if v is None:
        return None
    return {k: float(x) for k, x in v.items()}


def run_modes(e, betas, db, res):
    """returns True if the engine raised (process poisoned)"""
    poisoned = False
    modes = {}
    for g in (True, False):
        for h in (True, False):
            for b in (True, False):
                for agg in (True, False):
                    key = ''.join('T' if x else 'F' for x in (g, h, b)) + ('_agg' if agg else '_dis')
                    try:
                        r = e.get_value_and_derivatives(betas=betas, database=db, gradient=g, hessian=h, bhhh=b,
                                                        aggregation=agg, prepare_ids=True)
                        modes[key] = {'type': type(r).__name__, 'data_type': type(getattr(r, 'data', r)).__name__,
                                      **(out_agg(r) if agg else out_dis(r))}
                    except Exception as ex:  # noqa
                        modes[key] = exc(ex)
                        if not (type(ex).__name__ == 'BiogemeError' and not g and (h or b)):
                            # an exception of the engine: stop here (the process is recycled)
                            res['modes'] = modes
                            return True
    res['modes'] = modes
    return poisoned


def run_case(c):
    res = {}
    poisoned = False
    try:
        e = build(c['tree'], c['betas'])
        res['tree_back'] = expr_to_json(e)
    except Exception as ex:  # noqa
        return {'build_exc': exc(ex)}, False
    betas = {k: v['value'] for k, v in c['betas'].items() if not v['fixed']}
    db = Database('t', pd.DataFrame(c['rows']))
    poisoned |= run_modes(e, betas, db, res)
    if poisoned:
        return res, True
    # named results
    for agg in (True, False):
        key = 'named_agg' if agg else 'named_dis'
        try:
            r = e.get_value_and_derivatives(betas=betas, database=db, gradient=True, hessian=True, bhhh=True,
                                            aggregation=agg, prepare_ids=True, named_results=True)
            mp = r.mapping if not callable(r.mapping) else r.mapping()
            d = {'type': type(r).__name__, 'mapping': {k: int(v) for k, v in mp.items()}}
            if agg:
                d.update({'f': float(r.function), 'g': named_vec(r.gradient), 'h': named_mat(r.hessian), 'b': named_mat(r.bhhh)})
            else:
                d.update({'f': [float(x) for x in r.functions], 'g': [named_vec(x) for x in r.gradients],
                          'h': [named_mat(x) for x in r.hessians], 'b': [named_mat(x) for x in r.bhhhs]})
            res[key] = d
        except Exception as ex:  # noqa
            res[key] = exc(ex)
            return res, True
    # renamed parameters (order-reversing bijection on the free names)
    if c.get('renamed') and not poisoned:
        try:
            e2 = build(c['renamed']['tree'], c['renamed']['betas'])
            betas2 = {k: v['value'] for k, v in c['renamed']['betas'].items() if not v['fixed']}
            r = e2.get_value_and_derivatives(betas=betas2, database=db, aggregation=False, prepare_ids=True)
            ra = e2.get_value_and_derivatives(betas=betas2, database=db, aggregation=True, prepare_ids=True,
                                              named_results=True)
            res['renamed'] = {'dis': out_dis(r), 'agg_named': {'f': float(ra.function), 'g': named_vec(ra.gradient),
                                                                 'h': named_mat(ra.hessian), 'b': named_mat(ra.bhhh)}}
        except Exception as ex:  # noqa
            res['renamed'] = exc(ex)
            poisoned = True
    # BIOGEME.calculate_likelihood_and_derivatives
    if not poisoned:
        try:
            import biogeme.biogeme as bio
            from biogeme.parameters import Parameters
            bg = bio.BIOGEME(db, e, parameters=Parameters(), number_of_threads=c.get('threads', 1))
            bg.save_iterations = False
            bg.generate_html = False
            bg.generate_pickle = False
            names = list(bg.id_manager.free_betas.names)
            x = [betas[n] for n in names]
            bres = {'names': names, 'N': int(db.get_sample_size())}
            for scaled in (False, True):
                for (hh, bb) in ((True, True), (False, False)):
                    k = ('scaled' if scaled else 'unscaled') + ('_hb' if hh else '_g')
                    try:
                        o = bg.calculate_likelihood_and_derivatives(x, scaled=scaled, hessian=hh, bhhh=bb)
                        bres[k] = out_agg(o)
                    except Exception as ex:  # noqa
                        bres[k] = exc(ex)
                        poisoned = True
            res['biogeme'] = bres
        except Exception as ex:  # noqa
            res['biogeme'] = exc(ex)
            poisoned = True
    # Expression.create_function: a function of the array of free parameters (sorted-name order), named aggregated outputs
    if not poisoned:
        try:
            names = sorted(betas)
            e3 = build(c['tree'], c['betas'])
            fn = e3.create_function(database=db, gradient=True, hessian=True, bhhh=True)
            x2 = [betas[n] + (i + 1) * 2.0 ** -7 for i, n in enumerate(names)]
            r2 = fn(np.array(x2))
            ref = e.get_value_and_derivatives(betas=dict(zip(names, x2)), database=db, aggregation=True, prepare_ids=True, named_results=True)
            res['create_function'] = {'x2': x2, 'fn': {'f': float(r2.function), 'g': named_vec(r2.gradient), 'h': named_mat(r2.hessian), 'b': named_mat(r2.bhhh)},
                                      'ref': {'f': float(ref.function), 'g': named_vec(ref.gradient), 'h': named_mat(ref.hessian), 'b': named_mat(ref.bhhh)}}
        except Exception as ex:  # noqa
            res['create_function'] = exc(ex)
            poisoned = True
    if c.get('third_opinion') and not poisoned:
        res['findiff'] = findiff(e, betas, db)
    return res, poisoned


def findiff(e, betas, db):
    """central differences on get_value_c (per row): gradient and Hessian, step 2^-12 / 2^-9"""
    names = sorted(betas)
    out = {'names': names}
    try:
        def f(bv):
            return np.asarray(e.get_value_c(database=db, betas=bv, prepare_ids=True), dtype=float)
        hg, hh = 2.0 ** -12, 2.0 ** -9
        g = []
        for n in names:
            bp, bm = dict(betas), dict(betas)
            bp[n] += hg
            bm[n] -= hg
            g.append(((f(bp) - f(bm)) / (2 * hg)).tolist())
        out['g'] = np.asarray(g).T.tolist()
        H = np.zeros((len(db.data), len(names), len(names)))
        for i, a in enumerate(names):
            for j, b in enumerate(names):
                if j < i:
                    H[:, i, j] = H[:, j, i]
                    continue
                pp, pm, mp, mm = dict(betas), dict(betas), dict(betas), dict(betas)
                pp[a] += hh; pp[b] += hh
                pm[a] += hh; pm[b] -= hh
                mp[a] -= hh; mp[b] += hh
                mm[a] -= hh; mm[b] -= hh
                H[:, i, j] = (f(pp) - f(pm) - f(mp) + f(mm)) / (4 * hh * hh)
        out['h'] = H.tolist()
    except Exception as ex:  # noqa
        out['exc'] = exc(ex)
    try:
        # the library's own self-check (aggregated log likelihood)
        from biogeme.tools.derivatives import check_derivatives

        def fct(x):
            r = e.get_value_and_derivatives(betas=dict(zip(names, x)), database=db, aggregation=True, prepare_ids=True)
            from biogeme.function_output import FunctionOutput
            return FunctionOutput(function=float(r.function), gradient=np.asarray(r.gradient), hessian=np.asarray(r.hessian))
        chk = check_derivatives(fct, np.array([betas[n] for n in names]), names=names, logg=False)
        out['check_derivatives'] = {'gdiff': arr(chk[3]), 'hdiff': arr(chk[4])}
    except Exception as ex:  # noqa
        out['check_derivatives'] = exc(ex)
    return out


def main():
    payload = json.load(sys.stdin)
    out = []
    poisoned = False
    for c in payload['cases']:
        if poisoned:
            out.append(None)
            continue
        try:
            r, p = run_case(c)
        except Exception as ex:  # noqa
            r, p = {'harness_exc': exc(ex)}, True
        poisoned = poisoned or p
        out.append(r)
    print('@@' + json.dumps(out))


main()
