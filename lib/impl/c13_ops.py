"""Implementation side of stream C13/ops: run operation sequences on a real
biogeme.database.Database and dump the complete state after every call.

Input (stdin, JSON): list of cases
  {"table": {"cols": [name...], "kinds": ["int"|"float"...], "index": [label...],
             "cells": [[[m,e]...] per row]},
   "ops": [ {"op": ...}, ... ]}
Numbers travel as dyadic pairs [m, e] = m * 2**e (exact).  Random draws are captured by seeding
numpy before the call and replaying the same generator call on a probe of the same size.
Output: one line '@@<json>' with, per case, the list of observed steps.  Every exception of the
implementation is data, never a crash of this script.
"""
import json
import sys
import warnings
from fractions import Fraction

warnings.simplefilter('ignore')

import numpy as np  # noqa: E402
import pandas as pd  # noqa: E402


def dy(x):
    """exact dyadic encoding of a finite number; 'nan'/'inf' otherwise"""
    try:
        xf = float(x)
    except Exception:
        return ['bad', repr(x)[:40]]
    if xf != xf:
        return 'nan'
    if xf in (float('inf'), float('-inf')):
        return 'inf'
    if isinstance(x, (int, np.integer)):
        fr = Fraction(int(x))
    else:
        fr = Fraction(xf)
    m, d = fr.numerator, fr.denominator
    e = -(d.bit_length() - 1)
    if m == 0:
        return [0, 0]
    while m % 2 == 0:
        m //= 2
        e += 1
    return [m, e]


def undy(p):
    m, e = p
    return float(Fraction(m) * (Fraction(2) ** e))


def lab(x):
    try:
        return int(x)
    except Exception:
        return repr(x)[:40]


def dump_df(df):
    return {
        'cols': [str(c) for c in df.columns],
        'index': [lab(i) for i in df.index],
        'cells': [[dy(v) for v in row] for row in df.itertuples(index=False, name=None)],
        'dtypes': [str(t) for t in df.dtypes],
    }


def dump_state(db):
    st = dump_df(db.data)
    st['excluded'] = lab(db.excludedData)
    st['pcol'] = None if db.panelColumn is None else str(db.panelColumn)
    im = db.individualMap
    if im is None:
        st['imap'] = None
    else:
        try:
            st['imap'] = [[dy(i), [lab(r.iloc[0]), lab(r.iloc[1])]] for i, r in im.iterrows()]
        except Exception as e:  # noqa
            st['imap'] = ['undumpable', type(e).__name__, str(e)[:100], str(im)[:200]]
    return st


def build_expr(j):
    from biogeme.expressions import Variable, Numeric
    k = j[0]
    if k == 'col':
        return Variable(j[1])
    if k == 'const':
        return Numeric(undy(j[1]))
    if k == 'pyconst':
        return Numeric(j[1])
    a, b = build_expr(j[1]), build_expr(j[2])
    if k == '+':
        return a + b
    if k == '-':
        return a - b
    if k == '*':
        return a * b
    if k == '>':
        return a > b
    if k == '>=':
        return a >= b
    if k == '<':
        return a < b
    if k == '<=':
        return a <= b
    if k == '==':
        return a == b
    if k == '!=':
        return a != b
    if k == 'and':
        return a & b
    if k == 'or':
        return a | b
    raise ValueError(k)


def make_df(t):
    data = {}
    for j, c in enumerate(t['cols']):
        vals = [undy(r[j]) for r in t['cells']]
        if t['kinds'][j] == 'int':
            data[c] = np.array([int(v) for v in vals], dtype='int64')
        else:
            data[c] = np.array(vals, dtype='float64')
    return pd.DataFrame(data, index=pd.Index(t['index'], dtype='int64'), columns=t['cols'])


def dump_flat(df):
    rows = []
    for i, r in df.iterrows():
        ent = {}
        for c in df.columns:
            v = dy(r[c])
            if v == 'nan':
                continue
            ent[str(c)] = v
        rows.append([dy(i), ent])
    return {'index_name': str(df.index.name), 'rows': rows, 'cols': [str(c) for c in df.columns]}


def run_op(db, o):
    """returns (db, result-dict).  result['raised'] is None or the exception class name."""
    from biogeme.database import Database  # noqa
    k = o['op']
    res = {'raised': None}
    try:
        if k == 'remove':
            e = o['f']
            db.remove(e[1] if e[0] == 'pyconst' else build_expr(e))
        elif k == 'add':
            r = db.add_column(build_expr(o['f']), o['c'])
            res['ret'] = [dy(v) for v in r]
        elif k == 'define':
            r = db.define_variable(o['c'], build_expr(o['f']))
            res['ret'] = str(r)
        elif k == 'scale':
            s = undy(o['s'])
            if o.get('int_scale') and s == int(s):
                s = int(s)
            db.scale_column(o['c'], s)
        elif k == 'panel':
            db.panel(o['c'])
        elif k == 'extract_into':
            db = db.extract_rows(o['idx'])
        elif k == 'extract':
            r = db.extract_rows(o['idx'])
            res['out'] = dump_state(r)
        elif k == 'split':
            n = len(db.data)
            g = o.get('groups')
            gcol = db.panelColumn if db.panelColumn is not None else g
            if gcol is None:
                np.random.seed(o['seed'])
                res['perm'] = [int(i) for i in pd.DataFrame({'p': range(n)}).sample(frac=1)['p']]
            elif gcol in db.data.columns:
                ids = db.data[gcol].unique()
                np.random.seed(o['seed'])
                np.random.shuffle(ids)
                res['shuffled'] = [dy(v) for v in ids]
            np.random.seed(o['seed'])
            r = db.split(o['k'], groups=g) if g is not None else db.split(o['k'])
            res['folds'] = [{'est': dump_df(f.estimation), 'val': dump_df(f.validation)} for f in r]
        elif k == 'sample':
            n = len(db.data)
            size = o.get('size')
            np.random.seed(o['seed'])
            try:
                res['idx'] = [int(i) for i in np.random.randint(0, n, size=n if size is None else size)]
            except Exception:
                res['idx'] = None
            np.random.seed(o['seed'])
            r = db.sample_with_replacement(size) if size is not None else db.sample_with_replacement()
            res['out'] = dump_df(r)
        elif k == 'sample_imap':
            size = o.get('size')
            im = db.individualMap
            if im is not None:
                np.random.seed(o['seed'])
                try:
                    res['idx'] = [int(i) for i in np.random.randint(0, len(im), size=len(im) if size is None else size)]
                except Exception:
                    res['idx'] = None
            np.random.seed(o['seed'])
            r = (db.sample_individual_map_with_replacement(size) if size is not None
                 else db.sample_individual_map_with_replacement())
            res['out'] = [[dy(i), [lab(x.iloc[0]), lab(x.iloc[1])]] for i, x in r.iterrows()]
        elif k == 'count':
            res['n'] = lab(db.count(o['c'], undy(o['v'])))
        elif k == 'sample_size':
            res['n'] = lab(db.get_sample_size())
        elif k == 'nobs':
            res['n'] = lab(db.get_number_of_observations())
        elif k == 'flatten':
            ident = o.get('identical')
            r = (db.generate_flat_panel_dataframe(identical_columns=ident) if ident is not None
                 else db.generate_flat_panel_dataframe())
            res['out'] = dump_flat(r)
        else:
            res['raised'] = 'HARNESS:unknown-op'
    except Exception as e:  # noqa
        res['raised'] = type(e).__name__
        res['msg'] = str(e)[:160]
    return db, res


def run_case(c):
    from biogeme.database import Database
    out = {'steps': []}
    try:
        df = make_df(c['table'])
        db = Database('t', df)
    except Exception as e:  # noqa
        out['init_error'] = [type(e).__name__, str(e)[:200]]
        return out
    out['init'] = dump_state(db)
    for o in c['ops']:
        try:
            db, res = run_op(db, o)
            res['state'] = dump_state(db)
        except Exception as e:  # noqa  (dump failure)
            res = {'raised': 'HARNESS:' + type(e).__name__, 'msg': str(e)[:200], 'state': None}
        out['steps'].append(res)
        if res.get('state') is None:
            break
    return out


def main():
    cases = json.load(sys.stdin)
    outs = []
    for c in cases:
        try:
            outs.append(run_case(c))
        except Exception as e:  # noqa
            outs.append({'init_error': ['HARNESS:' + type(e).__name__, str(e)[:200]], 'steps': []})
    print('@@' + json.dumps(outs))


main()
