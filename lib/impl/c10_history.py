"""Implementation side of stream C10/history: formulas S (when it can be evaluated alone), P, Q built with ONE cache, so that
the node carrying a 'sid' (a bioDraws leaf, or a MonteCarlo / Derive / Integrate node) is the SAME Python object in all of them,
on ONE database with tagged deterministic draw generators.  A script of steps is run:
    ['new', m]        objects[m] = BIOGEME(database, {'f': formula m}, number_of_draws=R)
    ['sim', m, k]     objects[m].simulate(value set k)                                  -> one value per row
    ['gvc', m, k]     formula m .get_value_c(database, betas=value set k, number_of_draws=R, prepare_ids=True)
    ['prep', m]       formula m .prepare(database, R)                                   (identifiers set once ...)
    ['gvp', m, k]     formula m .get_value_c(database, betas=value set k, number_of_draws=R, prepare_ids=False)   (... and reused)
    ['fn', m, k]      function created ONCE by formula m .create_function(database, R) and called at value set k (sum over rows)
Every value is returned; an exception ends the script (the engine keeps re-raising its first exception) and is data."""
import json
import logging
import math
import sys
import warnings

warnings.filterwarnings('ignore')
logging.disable(logging.CRITICAL)
sys.path.insert(0, '/verif/lib/impl')

import numpy as np  # noqa: E402
import pandas as pd  # noqa: E402
from biogeme.database import Database  # noqa: E402
from biogeme.biogeme import BIOGEME  # noqa: E402
from biogeme.parameters import Parameters  # noqa: E402
from bio_build import build  # noqa: E402
from bio_bridge import expr_to_json  # noqa: E402

SCALE = 4096


def tagged(k):
    def g(n, r):
        n, r = int(n), int(r)
        return np.array([[(k * 1024 + o * 32 + j) / SCALE for j in range(r)] for o in range(n)], dtype=np.float64).reshape(n, r)
    return g


def enc(v):
    v = float(v)
    return v if math.isfinite(v) else ('minf' if v == -math.inf else 'error')


def exc(e):
    return f'{type(e).__name__}: {str(e)[:220]}'


def run_case(c):
    res = {'steps': []}
    failed = False
    try:
        cache = {}
        F = {m: build(c['formulas'][m], c['betas'], cache) for m in c['order']}
        res['back'] = {m: expr_to_json(F[m]) for m in c['order']}
        res['shared_same_object'] = len({id(cache[c['shared_sid']])}) == 1 and c['shared_sid'] in cache
        db = Database('c10h', pd.DataFrame(c['rows']))
        if c.get('gens'):
            db.set_random_number_generators({g[0]: (tagged(g[2]), f'tagged {g[2]}') for g in c['gens']})
        R = c['R']
        objects, fns = {}, {}
        for step in c['script']:
            op, m = step[0], step[1]
            try:
                if op == 'new':
                    objects[m] = BIOGEME(db, {'f': F[m]}, parameters=Parameters(), number_of_draws=R,
                                         number_of_threads=c.get('threads', 1))
                    objects[m].generate_html = False
                    objects[m].generate_pickle = False
                    objects[m].save_iterations = False
                    res['steps'].append('ok')
                    continue
                if op == 'prep':
                    F[m].prepare(database=db, number_of_draws=R)
                    res['steps'].append('ok')
                    continue
                vals = c['valsets'][step[2]]
                free = {k: v for k, v in vals.items() if not c['betas'][k]['fixed']}
                if op == 'sim':
                    names = objects[m].id_manager.free_betas.names
                    df = objects[m].simulate({k: free[k] for k in names})
                    res['steps'].append([enc(x) for x in df['f']])
                elif op == 'gvc':
                    v = F[m].get_value_c(database=db, betas=free, number_of_draws=R, prepare_ids=True)
                    res['steps'].append([enc(x) for x in np.atleast_1d(v)])
                elif op == 'gvp':
                    v = F[m].get_value_c(database=db, betas=free, number_of_draws=R, prepare_ids=False)
                    res['steps'].append([enc(x) for x in np.atleast_1d(v)])
                elif op == 'fn':
                    if m not in fns:
                        fns[m] = (F[m].create_function(database=db, number_of_draws=R, gradient=False, hessian=False, bhhh=False),
                                  list(F[m].id_manager.free_betas.names))
                    fn, names = fns[m]
                    r = fn([free[k] for k in names])
                    f = r.function if hasattr(r, 'function') else r
                    res['steps'].append({'sum': enc(f)})
                else:
                    res['steps'].append('unknown step')
            except Exception as ex:  # noqa
                res['steps'].append(exc(ex))
                failed = True
                break
    except Exception as ex:  # noqa
        res['build_exc'] = exc(ex)
    return res, failed


def main():
    payload = json.load(sys.stdin)
    out = []
    poisoned = False
    for c in payload['cases']:
        if poisoned:
            out.append(None)
            continue
        try:
            r, poisoned = run_case(c)
            out.append(r)
        except Exception as ex:  # noqa
            out.append({'harness_exc': exc(ex)})
    print('@@' + json.dumps(out))


main()
