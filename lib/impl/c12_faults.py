"""Implementation side of the C12 `faults` / `methods` streams.  One item = one call of one real entry point:

  mode 'formula': BIOGEME(db, f) | BIOGEME(db, {'log_like': f}) | f.get_value_c(database=db, prepare_ids=True)
                  | f.get_value_and_derivatives(...) with a given (gradient, hessian, bhhh)
                  | 'methods': f.audit(db), f.check_draws(), f.check_rv(), f.check_panel_trajectory()
  mode 'data':    Database('x', frame) for a described frame (strings, NaN, extension types, no row, ...)
  mode 'nests':   models.lognested / nested / logcnl / ... with the described nests

Every exception is data.  After the first exception coming from the compiled engine the script stops (the engine keeps
re-raising the first exception of a process): the remaining items are answered None and re-run by the harness in a
fresh process."""
import json
import math
import sys
import warnings

warnings.filterwarnings('ignore')
import logging  # noqa: E402

logging.disable(logging.CRITICAL)
sys.path.insert(0, '/verif/lib/impl')
import numpy as np  # noqa: E402
import pandas as pd  # noqa: E402
from biogeme.database import Database  # noqa: E402
from biogeme.exceptions import BiogemeError  # noqa: E402


def build(j, betas, cache=None):
    """bio_build.build + Catalog nodes ['Catalog', name, selected_index] (children = the members)."""
    import biogeme.expressions as ex
    from biogeme.expressions import (Beta, Variable, Numeric, bioDraws, RandomVariable, bioMultSum, ConditionalSum,
                                     ConditionalTermTuple, Elem, bioLinearUtility, LinearTermTuple, MonteCarlo,
                                     PanelLikelihoodTrajectory, bioNormalCdf, bioMin, bioMax, BelongsTo, Derive, Integrate,
                                     logzero, _bioLogLogit)
    from biogeme.expressions.binary_expressions import And, Or, Plus, Minus, Times, Divide, Power
    from biogeme.expressions.comparison_expressions import Equal, NotEqual, LessOrEqual, GreaterOrEqual, Less, Greater
    from biogeme.expressions.unary_expressions import UnaryMinus, PowerConstant
    from biogeme.catalog import Catalog

    BIN = {'Plus': Plus, 'Minus': Minus, 'Times': Times, 'Divide': Divide, 'Power': Power, 'BMin': bioMin, 'BMax': bioMax,
           'And': And, 'Or': Or, 'Eq': Equal, 'Ne': NotEqual, 'Le': LessOrEqual, 'Ge': GreaterOrEqual, 'Lt': Less, 'Gt': Greater}
    UN = {'UMinus': UnaryMinus, 'Exp': ex.exp, 'Log': ex.log, 'Logzero': logzero, 'Sin': ex.sin, 'Cos': ex.cos,
          'NormalCdf': bioNormalCdf, 'MonteCarlo': MonteCarlo, 'PanelTraj': PanelLikelihoodTrajectory}
    cache = cache if cache is not None else {}

    def go(n):
        sid = n.get('sid')
        if sid is not None and sid in cache:
            return cache[sid]
        h, k = n['h'], n['k']
        t = h[0]
        if t == 'Num':
            r = Numeric(math.ldexp(h[1], h[2]))
        elif t == 'Beta':
            b = betas.get(h[1], {})
            r = Beta(h[1], b.get('value', 0.0), b.get('lb'), b.get('ub'), 1 if h[2] else 0)
        elif t == 'Var':
            r = Variable(h[1])
        elif t == 'Draws':
            r = bioDraws(h[1], h[2])
        elif t == 'RV':
            r = RandomVariable(h[1])
        elif t == 'Bin':
            r = BIN[h[1]](go(k[0]), go(k[1]))
        elif t == 'Un':
            r = UN[h[1]](go(k[0]))
        elif t == 'PowC':
            r = PowerConstant(go(k[0]), math.ldexp(h[1], h[2]))
        elif t == 'Derive':
            r = Derive(go(k[0]), h[1])
        elif t == 'Integrate':
            r = Integrate(go(k[0]), h[1])
        elif t == 'Belongs':
            r = BelongsTo(go(k[0]), set(math.ldexp(m, e) for m, e in h[1]))
        elif t == 'MultSum':
            r = bioMultSum([go(x) for x in k])
        elif t == 'CondSum':
            r = ConditionalSum([ConditionalTermTuple(condition=go(k[i]), term=go(k[i + 1])) for i in range(0, len(k), 2)])
        elif t == 'Elem':
            r = Elem({key: go(x) for key, x in zip(h[1], k[1:])}, go(k[0]))
        elif t == 'LinUtil':
            r = bioLinearUtility([LinearTermTuple(beta=go(k[i]), x=go(k[i + 1])) for i in range(0, len(k), 2)])
        elif t == 'LogLogit':
            uk, ak = h[1], h[2]
            util = {key: go(x) for key, x in zip(uk, k[1:1 + len(uk)])}
            av = {key: go(x) for key, x in zip(ak, k[1 + len(uk):])}
            r = _bioLogLogit(util, av, go(k[0]))
        elif t == 'Catalog':
            members = {f'm{i}': go(x) for i, x in enumerate(k)}
            r = Catalog.from_dict(h[1], members)
            if h[2] != 0:
                r.controlled_by.set_name(f'm{h[2]}')
        else:
            raise ValueError(f'cannot build {h}')
        if sid is not None:
            cache[sid] = r
        return r

    return go(j)


def describe(exc):
    return {'status': 'raised', 'exc': type(exc).__name__, 'biogeme': isinstance(exc, BiogemeError),
            'msg': str(exc)[:600], 'engine': isinstance(exc, RuntimeError) and not isinstance(exc, BiogemeError)}


def summary(v):
    try:
        a = np.atleast_1d(np.asarray(v, dtype=float)).ravel()
        return {'n': int(a.size), 'finite': int(np.isfinite(a).sum()), 'first': (float(a[0]) if a.size and np.isfinite(a[0]) else None)}
    except Exception:  # noqa
        return {'repr': repr(v)[:80]}


def make_db(it):
    df = pd.DataFrame(it['rows'])
    db = Database('c12', df)
    if it.get('panel'):
        db.panel('id')
    if it.get('empty_after'):
        from biogeme.expressions import Variable
        db.remove(Variable(it['empty_after']) == Variable(it['empty_after']))
    return db


def run_formula(it):
    entry = it['entry']
    nd = it.get('ndraws', 6)
    if entry in ('idmanager', 'idmanager_multi'):
        # the IdManager itself on the formulas of the specification
        from biogeme.expressions.idmanager import IdManager
        trees = it['trees'] if entry == 'idmanager_multi' else [['f', it['tree']]]
        m = IdManager([build(t, it['betas']) for _, t in trees], make_db(it), nd)
        return {'status': 'accepted', 'value': sorted(m.draw_types().items()) if m.draws.names else 'no draws'}
    if entry == 'biogeme_multi':
        # a specification with several formulas: {'log_like': ..., 's1': ..., 'weight': ...} in the given order
        from biogeme.biogeme import BIOGEME
        formulas = {name: build(t, it['betas']) for name, t in it['trees']}
        b = BIOGEME(make_db(it), formulas, number_of_draws=nd)
        return {'status': 'accepted', 'value': 'constructed', 'after': after_ctor(b)}
    f = build(it['tree'], it['betas'])
    if entry == 'methods':
        db = make_db(it)
        out = {'status': 'accepted'}
        try:
            errs, _ = f.audit(db)
            out['audit'] = [str(e)[:200] for e in errs]
        except Exception as e:  # noqa
            out['audit_exc'] = describe(e)
        for name in ('check_draws', 'check_rv', 'check_panel_trajectory'):
            try:
                out[name] = sorted(getattr(f, name)())
            except Exception as e:  # noqa
                out[name + '_exc'] = describe(e)
        return out
    db = make_db(it)
    from biogeme.biogeme import BIOGEME
    if entry == 'biogeme':
        b = BIOGEME(db, f, number_of_draws=nd)
        return {'status': 'accepted', 'value': 'constructed', 'after': after_ctor(b)}
    if entry == 'biogeme_dict':
        b = BIOGEME(db, {'log_like': f}, number_of_draws=nd)
        return {'status': 'accepted', 'value': 'constructed', 'after': after_ctor(b)}
    if entry == 'biogeme_weight':
        from biogeme.expressions import Numeric
        b = BIOGEME(db, {'log_like': Numeric(0), 'weight': f}, number_of_draws=nd)
        return {'status': 'accepted', 'value': 'constructed'}
    if entry == 'gvc':
        v = f.get_value_c(database=db, prepare_ids=True, number_of_draws=nd)
        return {'status': 'accepted', 'value': summary(v)}
    if entry in ('gvd', 'hess', 'bhhh', 'hess_bhhh'):
        g, h, bh = {'gvd': (True, True, True), 'hess': (False, True, False), 'bhhh': (False, False, True),
                    'hess_bhhh': (False, True, True)}[entry]
        r = f.get_value_and_derivatives(database=db, prepare_ids=True, number_of_draws=nd, gradient=g, hessian=h, bhhh=bh)
        return {'status': 'accepted', 'value': summary(r.function)}
    raise ValueError(entry)


def after_ctor(b):
    """what the accepted specification then produces (only looked at when a planted fault was accepted)"""
    try:
        return {'loglike': summary(b.calculate_init_likelihood())}
    except Exception as e:  # noqa
        return {'exc': describe(e)}


def frame_of(spec):
    n = spec.get('nrows', 3)
    cols = {}
    for c in spec['cols']:
        kind = c['kind']
        name = c['name']
        base = [float(i + 1) / 2 for i in range(n)]
        if kind == 'float':
            v = base
        elif kind == 'int':
            v = [i + 1 for i in range(n)]
        elif kind == 'float32':
            v = np.array(base, dtype='float32')
        elif kind == 'int32':
            v = np.array(range(n), dtype='int32')
        elif kind == 'uint8':
            v = np.array(range(n), dtype='uint8')
        elif kind == 'str-object':
            v = ['a'] * n
        elif kind == 'numeric-strings':
            v = [str(i) for i in range(n)]
        elif kind == 'mixed-object':
            v = [1.0] * n
            if n:
                v[c.get('row', 0) % n] = 'oops'
        elif kind == 'string-dtype':
            v = pd.array(['a'] * n, dtype='string')
        elif kind == 'category':
            v = pd.Categorical(['u'] * n)
        elif kind == 'datetime':
            v = pd.to_datetime(['2020-01-01'] * n)
        elif kind == 'timedelta':
            v = pd.to_timedelta(list(range(n)), unit='s')
        elif kind == 'list-cells':
            v = [[1]] * n
        elif kind == 'nan-float':
            v = list(base)
            if n:
                v[c.get('row', 0) % n] = float('nan')
        elif kind == 'none-object':
            v = list(base)
            if n:
                v[c.get('row', 0) % n] = None
        elif kind == 'Int64-NA':
            v = [i + 1 for i in range(n)]
            if n:
                v[c.get('row', 0) % n] = None
            v = pd.array(v, dtype='Int64')
        elif kind == 'Float64-NA':
            v = list(base)
            if n:
                v[c.get('row', 0) % n] = None
            v = pd.array(v, dtype='Float64')
        elif kind == 'NaT':
            v = pd.to_datetime(['2020-01-01'] * n)
            if n:
                v = v.to_series().reset_index(drop=True)
                v[c.get('row', 0) % n] = pd.NaT
        else:
            raise ValueError(kind)
        cols[name] = v
    if spec.get('no_columns'):
        return pd.DataFrame(index=range(n))
    return pd.DataFrame(cols)


def run_data(it):
    df = frame_of(it['frame'])
    entry = it['entry']
    if entry == 'database':
        db = Database('c12', df)
        return {'status': 'accepted', 'value': f'{len(db.data.index)}x{len(db.data.columns)}', 'dtypes': [str(t) for t in df.dtypes]}
    db = Database('c12', df)
    from biogeme.expressions import Beta, Variable
    used = it.get('use', 'x0')
    f = Beta('b', 0.5, None, None, 0) * Variable(used)
    if it.get('empty_after'):
        db.remove(Variable(used) == Variable(used))
    if entry == 'biogeme':
        from biogeme.biogeme import BIOGEME
        b = BIOGEME(db, f)
        return {'status': 'accepted', 'value': 'constructed', 'after': after_ctor(b)}
    if entry == 'gvc':
        v = f.get_value_c(database=db, prepare_ids=True)
        return {'status': 'accepted', 'value': summary(v)}
    raise ValueError(entry)


def run_history(it):
    """a database with a HISTORY: operations (a first BIOGEME object, panel(), remove(), add_column(), scale_column()),
    then a fault enters the current table, then a second BIOGEME(...) / get_value_c is asked to work on it"""
    from biogeme.biogeme import BIOGEME
    from biogeme.expressions import Beta, Variable, PanelLikelihoodTrajectory, Numeric
    n = it.get('nrows', 5)
    df = pd.DataFrame({'x0': [0.5 * (i + 1) for i in range(n)], 'x1': [i % 3 for i in range(n)],
                       'id': [1 + i // 2 for i in range(n)]})
    db = Database('c12h', df)
    b = Beta('b', 0.5, None, None, 0)

    def formula(col):
        f = b * Variable(col)
        return PanelLikelihoodTrajectory(f) if db.is_panel() else f
    for step in it['steps']:
        if step == 'first_biogeme':
            BIOGEME(db, formula('x0'))
        elif step == 'first_biogeme_dict':
            BIOGEME(db, {'log_like': formula('x0')})
        elif step == 'panel':
            db.panel('id')
        elif step == 'remove_some':
            db.remove(Variable('x1') == Numeric(2))
        elif step == 'add_column':
            db.add_column(Variable('x0') * Numeric(2), 'xnew')
        elif step == 'scale':
            db.scale_column('x0', 2.0)
        elif step == 'first_gvc':
            formula('x0').get_value_c(database=db, prepare_ids=True)
        else:
            raise ValueError(step)
    inj = it.get('inject')
    col = 'x0'
    m = len(db.data.index)
    r = it.get('row', 0) % max(m, 1)
    if inj == 'nan-cell':
        db.data.loc[db.data.index[r], 'x0'] = float('nan')
    elif inj == 'nan-column':
        num = db.data['x0'] * 1.0
        den = db.data['x0'] * 1.0
        num.iloc[r] = 0.0
        den.iloc[r] = 0.0
        db.data['ratio'] = num / den           # one 0/0
        col = 'ratio'
    elif inj == 'str-column':
        db.data['sbad'] = ['a'] * m
    elif inj == 'object-cell':
        db.data['sbad'] = [1.0] * m
        db.data['sbad'] = db.data['sbad'].astype(object)
        db.data.loc[db.data.index[r], 'sbad'] = 'oops'
    elif inj == 'empty':
        db.remove(Variable('x0') == Variable('x0'))
    elif inj == 'good-column':
        db.data['ratio'] = db.data['x0'] / 2.0
        col = 'ratio'
    elif inj is not None:
        raise ValueError(inj)
    entry = it['entry']
    if entry == 'biogeme':
        bb = BIOGEME(db, formula(col))
        return {'status': 'accepted', 'value': 'constructed', 'after': after_ctor(bb)}
    if entry == 'biogeme_dict':
        bb = BIOGEME(db, {'log_like': formula(col)})
        return {'status': 'accepted', 'value': 'constructed', 'after': after_ctor(bb)}
    if entry == 'gvc':
        v = formula(col).get_value_c(database=db, prepare_ids=True)
        return {'status': 'accepted', 'value': summary(v)}
    raise ValueError(entry)


def find_catalogs(e, acc=None):
    """the catalog objects of a formula by name (all members are visited, not only the selected one)"""
    from biogeme.catalog import Catalog
    acc = acc if acc is not None else {}
    if isinstance(e, Catalog):
        acc[e.name] = e
        for _, m in e.named_expressions:
            find_catalogs(m, acc)
    else:
        for c in e.children:
            find_catalogs(c, acc)
    return acc


def run_evalhist(it):
    """REPEATED evaluations with the same identifiers (prepare_ids=False): expr.prepare(...) then get_value_c /
    get_value_and_derivatives, the function returned by create_function, the object returned by create_objective_function;
    between the calls the table or the selected member of a catalog changes.  One outcome per call."""
    f = build(it['tree'], it['betas'])
    db = make_db(it)
    nd = it.get('ndraws', 5)
    setup = it['setup']
    cats = find_catalogs(f)
    fct = None
    if setup.startswith('prepare'):
        f.prepare(db, nd)
    elif setup == 'create_function':
        fct = f.create_function(database=db, number_of_draws=nd, gradient=False, hessian=False, bhhh=False)
    elif setup == 'create_function_g':
        fct = f.create_function(database=db, number_of_draws=nd, gradient=True, hessian=False, bhhh=False)
    elif setup.startswith('objective'):
        fct = f.create_objective_function(database=db, number_of_draws=nd)
    elif setup.startswith('fresh') or setup == 'from-configuration':
        pass           # every call prepares its own identifiers on the SAME expression objects
    else:
        raise ValueError(setup)
    from biogeme.expressions.elementary_types import TypeOfElementaryExpression
    free = f.dict_of_elementary_expression(TypeOfElementaryExpression.FREE_BETA)
    x0 = [float(free[k].initValue) for k in sorted(free)]
    calls = []
    selection = {}
    ncall = 0
    stopped = False

    def call():
        nonlocal ncall
        ncall += 1
        x = np.array([v + ncall / 1024.0 for v in x0])     # a new point each time (the objective object caches by point)
        if setup == 'fresh-gvc':
            return summary(f.get_value_c(database=db, number_of_draws=nd, prepare_ids=True))
        if setup == 'fresh-gvd':
            r = f.get_value_and_derivatives(database=db, number_of_draws=nd, prepare_ids=True, gradient=True, hessian=True,
                                            bhhh=False, aggregation=True)
            return summary(r.function)
        if setup == 'from-configuration':
            # BIOGEME.from_configuration on the SAME expression object, for the configuration selected by the script
            from biogeme.biogeme import BIOGEME
            cfg = ';'.join(f'{n}:{selection.get(n, "m0")}' for n in sorted(cats))
            return summary(BIOGEME.from_configuration(config_id=cfg, expression=f, database=db).calculate_init_likelihood())
        if setup == 'fresh-biogeme':
            from biogeme.biogeme import BIOGEME
            return summary(BIOGEME(db, f, number_of_draws=nd).calculate_init_likelihood())
        if setup == 'prepare-gvc':
            return summary(f.get_value_c(database=db, number_of_draws=nd, prepare_ids=False))
        if setup == 'prepare-gvd':
            r = f.get_value_and_derivatives(database=db, number_of_draws=nd, prepare_ids=False, gradient=True, hessian=True,
                                            bhhh=False, aggregation=True)
            return summary(r.function)
        if setup in ('create_function', 'create_function_g'):
            return summary(fct(x).function_output.function)
        fct.set_variables(x)
        if setup == 'objective-f':
            return summary(fct.f())
        if setup == 'objective-fg':
            return summary(fct.f_g().function)
        return summary(fct.f_g_h().function)

    for op in it['script']:
        if stopped:
            if op == 'call':
                calls.append({'status': 'skipped'})
            continue
        if op == 'call':
            try:
                calls.append({'status': 'accepted', 'value': call()})
            except Exception as e:  # noqa
                d = describe(e)
                calls.append(d)
                if d['engine']:
                    stopped = True      # the engine keeps re-raising its first exception
            continue
        k = op[0]
        if k == 'rename':
            db.data = db.data.rename(columns={op[1]: op[2]})
        elif k == 'rename_inplace':
            db.data.rename(columns={op[1]: op[2]}, inplace=True)
        elif k == 'drop':
            db.data = db.data.drop(columns=[op[1]])
        elif k == 'set':
            db.data.loc[db.data.index[op[2] % len(db.data.index)], op[1]] = op[3]
        elif k == 'scale':
            db.scale_column(op[1], op[2])
        elif k == 'select':
            selection[op[1]] = op[2]
            if setup != 'from-configuration':
                cats[op[1]].controlled_by.set_name(op[2])
        elif k == 'empty':
            from biogeme.expressions import Variable
            db.remove(Variable(op[1]) == Variable(op[1]))
        else:
            raise ValueError(op)
    out = {'status': 'done', 'calls': calls}
    if stopped:
        out['engine'] = True
    return out


def run_nests(it):
    from biogeme import models
    from biogeme.expressions import Beta, Variable, Numeric
    from biogeme.nests import (OneNestForNestedLogit, NestsForNestedLogit, OneNestForCrossNestedLogit,
                               NestsForCrossNestedLogit)
    alts = it['util_keys']
    util = {a: (Beta(f'b{a}', 0.1 * (i + 1), None, None, 0) * Variable('x1') if i else Numeric(0)) for i, a in enumerate(alts)}
    av = None
    if it.get('avail'):
        av = {a: (Variable('av1') if i == 1 else Numeric(1)) for i, a in enumerate(alts)}
    choice = Variable('kk')
    mu = [Beta(f'mu{m}', 1.5 + m / 4, 1, None, 0) for m in range(len(it['nests']))]
    fn = it['func']
    cross = fn in ('logcnl', 'cnl', 'logcnlmu', 'cnlmu', 'get_mev_for_cross_nested', 'get_mev_for_cross_nested_mu')
    if cross:
        def alpha(m, a):
            return 0.5 if sum(1 for n in it['nests'] if a in n) > 1 else 1.0
        if it.get('old_syntax'):
            nests = tuple((mu[m], {a: alpha(m, a) for a in n}) for m, n in enumerate(it['nests']))
        else:
            nests = NestsForCrossNestedLogit(it['choice_set'], tuple(
                OneNestForCrossNestedLogit(mu[m], {a: alpha(m, a) for a in n}, f'n{m}') for m, n in enumerate(it['nests'])))
    else:
        if it.get('old_syntax'):
            nests = tuple((mu[m], list(n)) for m, n in enumerate(it['nests']))
        else:
            nests = NestsForNestedLogit(it['choice_set'], tuple(
                OneNestForNestedLogit(mu[m], list(n), f'n{m}') for m, n in enumerate(it['nests'])))
    mumu = Beta('mu_top', 1.0, None, None, 1)
    if fn in ('lognested', 'nested', 'logcnl', 'cnl'):
        e = getattr(models, fn)(util, av, nests, choice)
    elif fn in ('lognested_mev_mu', 'nested_mev_mu', 'logcnlmu', 'cnlmu'):
        e = getattr(models, fn)(util, av, nests, choice, mumu)
    elif fn in ('get_mev_for_nested', 'get_mev_generating_for_nested', 'get_mev_for_cross_nested'):
        e = getattr(models, fn)(util, av, nests)
    elif fn in ('get_mev_for_nested_mu', 'get_mev_for_cross_nested_mu'):
        e = getattr(models, fn)(util, av, nests, mumu)
    else:
        raise ValueError(fn)
    out = {'status': 'accepted', 'value': type(e).__name__}
    if it.get('evaluate') and not isinstance(e, dict):
        db = Database('c12', pd.DataFrame(it['rows']))
        out['value'] = summary(e.get_value_c(database=db, prepare_ids=True))
    return out


def main():
    payload = json.load(sys.stdin)
    out = []
    poisoned = False
    for it in payload['cases']:
        if poisoned:
            out.append(None)
            continue
        try:
            if it['mode'] == 'formula':
                r = run_formula(it)
            elif it['mode'] == 'data':
                r = run_data(it)
            elif it['mode'] == 'nests':
                r = run_nests(it)
            elif it['mode'] == 'history':
                r = run_history(it)
            elif it['mode'] == 'evalhist':
                r = run_evalhist(it)
            else:
                r = {'status': 'harness', 'msg': f'unknown mode {it["mode"]}'}
        except Exception as e:  # noqa
            r = describe(e)
            import traceback
            r['where'] = traceback.format_exc().strip().splitlines()[-3:][0][:200] if not r['biogeme'] else ''
        if r.get('engine') or any(isinstance(v, dict) and v.get('engine') for v in r.values()) \
                or (isinstance(r.get('after'), dict) and isinstance(r['after'].get('exc'), dict) and r['after']['exc'].get('engine')):
            poisoned = True
        out.append(r)
    print('@@' + json.dumps(out))


if __name__ == "__main__":
    main()
