"""Implementation side of streams C01/sig and C03/ids: build the generated formulas (with sharing),
let the library number them (IdManager over one or several formulas side by side) and serialise
them (get_signature); return the raw signature lines, the id tables and the object graph."""
import json, sys, warnings
warnings.filterwarnings('ignore')
sys.path.insert(0, '/verif/lib/impl')
import pandas as pd
from biogeme.database import Database
from biogeme.expressions import IdManager
from bio_build import build
from bio_bridge import expr_to_json

payload = json.load(sys.stdin)
out = []
for c in payload['cases']:
    res = {}
    try:
        cache = {}
        exprs = [build(t, c['betas'], cache) for t in c['trees']]
        db = Database('t', pd.DataFrame(c['rows'])) if c['rows'] else None
        try:
            idm = IdManager(exprs, db, 10)
            for e in exprs:
                e.set_id_manager(idm)
            res['ids'] = {
                'free': list(idm.free_betas.names), 'fixed': list(idm.fixed_betas.names),
                'rv': list(idm.random_variables.names), 'draws': list(idm.draws.names),
                'vars': list(idm.variables.names),
                'all': list(idm.elementary_expressions.names),
                'all_indices': dict(idm.elementary_expressions.indices),
                'free_indices': dict(idm.free_betas.indices),
                'fixed_indices': dict(idm.fixed_betas.indices),
                'free_values': [float(v) for v in idm.free_betas_values],
                'fixed_values': [float(v) for v in idm.fixed_betas_values],
                'bounds': [[b[0], b[1]] for b in idm.bounds],
                'n_free': idm.number_of_free_betas,
            }
            res['graphs'] = [expr_to_json(e, with_ids=True, through_catalogs=False) for e in exprs]
            res['sigs'] = [[l.decode() for l in e.get_signature()] for e in exprs]
        except Exception as ex:  # noqa
            res['prepare_exc'] = f'{type(ex).__name__}: {str(ex)[:200]}'
    except Exception as ex:  # noqa
        res['build_exc'] = f'{type(ex).__name__}: {str(ex)[:300]}'
    out.append(res)
print('@@' + json.dumps(out))
