"""Implementation side of the C01 value streams: build each generated tree (with sharing), evaluate
it by the compiled engine on every row of its table (get_value_c) and, when asked, by the
pure-Python evaluator (get_value)."""
import json, sys, math, warnings
warnings.filterwarnings('ignore')
sys.path.insert(0, '/verif/lib/impl')
import numpy as np
import pandas as pd
from biogeme.database import Database
from bio_build import build
from bio_bridge import expr_to_json

payload = json.load(sys.stdin)
out = []
poisoned = False
for c in payload['cases']:
    if poisoned:
        # the engine keeps re-raising the first exception of the process (known finding): stop here,
        # the harness re-runs the remaining cases in a fresh process
        out.append(None)
        continue
    res = {}
    try:
        e = build(c['tree'], c['betas'])
        res['tree_back'] = expr_to_json(e)
        betas = {k: v['value'] for k, v in c['betas'].items() if not v['fixed']}
        if c['rows']:
            db = Database('t', pd.DataFrame(c['rows']))
            try:
                vals = e.get_value_c(database=db, betas=betas, prepare_ids=True)
                res['engine'] = [float(v) if math.isfinite(float(v)) else ('minf' if float(v) == -math.inf else 'error') for v in vals]
            except Exception as ex:  # noqa
                res['engine_exc'] = f'{type(ex).__name__}: {str(ex)[:200]}'
        else:
            try:
                v = e.get_value_c(betas=betas, prepare_ids=True)
                v = float(v)
                res['engine'] = [v if math.isfinite(v) else ('minf' if v == -math.inf else 'error')]
            except Exception as ex:  # noqa
                res['engine_exc'] = f'{type(ex).__name__}: {str(ex)[:200]}'
            if payload.get('python'):
                try:
                    v = float(e.get_value())
                    res['python'] = v if math.isfinite(v) else ('minf' if v == -math.inf else 'error')
                except Exception as ex:  # noqa
                    res['python_exc'] = f'{type(ex).__name__}: {str(ex)[:200]}'
    except Exception as ex:  # noqa
        res['build_exc'] = f'{type(ex).__name__}: {str(ex)[:300]}'
    if 'engine_exc' in res:
        poisoned = True
    out.append(res)
print('@@' + json.dumps(out))
