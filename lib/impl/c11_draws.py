"""Implementation side of the C11 streams.  Reads {"mode": ..., "cases": [...]} on stdin, prints
one line '@@<json>'.  Every case is run under try/except and reported as data.

numpy's global RNG is observed, not replaced: np.random.uniform / np.random.shuffle are wrapped to
record what they returned / which permutation they applied (the permutation is recovered by
replaying the same RNG state on an index array, and the recovery is self-checked)."""
import json
import sys
import traceback

import numpy as np

import biogeme.draws as draws
import biogeme.native_draws as native_draws

REC = {'uniform': [], 'shuffle': [], 'wichura': [], 'shuffle_ok': True}
_uniform = np.random.uniform
_shuffle = np.random.shuffle
_wichura = draws.get_normal_wichura_draws


def rec_uniform(*a, **k):
    r = _uniform(*a, **k)
    REC['uniform'].append(np.array(r, dtype=float).ravel().tolist())
    return r


def rec_shuffle(x):
    before = np.array(x, copy=True)
    st = np.random.get_state()
    _shuffle(x)
    after_state = np.random.get_state()
    np.random.set_state(st)
    idx = np.arange(len(before))
    _shuffle(idx)
    np.random.set_state(after_state)
    try:
        if before.ndim != 1 or not np.array_equal(before[idx], np.asarray(x)):
            REC['shuffle_ok'] = False
    except Exception:
        REC['shuffle_ok'] = False
    REC['shuffle'].append(idx.tolist())


def rec_wichura(*a, **k):
    names = ['sample_size', 'number_of_draws', 'uniform_numbers', 'antithetic']
    b = dict(zip(names, a))
    b.update(k)
    u = b.get('uniform_numbers')
    REC['wichura'].append({'u': None if u is None else np.array(u, dtype=float).ravel().tolist(),
                           'antithetic': bool(b.get('antithetic', False))})
    return _wichura(*a, **k)


def patch():
    np.random.uniform = rec_uniform
    np.random.shuffle = rec_shuffle
    draws.get_normal_wichura_draws = rec_wichura


def reset():
    REC.update(uniform=[], shuffle=[], wichura=[], shuffle_ok=True)


def arr_out(a):
    a = np.asarray(a)
    return {'shape': list(a.shape), 'dtype': str(a.dtype),
            'rows': a.astype(float).tolist() if a.ndim == 2 else None,
            'flat': a.astype(float).ravel().tolist() if a.ndim != 2 else None}


def err(e):
    return {'ok': False, 'exc': type(e).__name__, 'msg': str(e)[:300]}


def one_type(c):
    reset()
    try:
        np.random.seed(c['seed'])
        g = native_draws.native_random_number_generators[c['key']]
        a = g.generator(c['ss'], c['n'])
        r = {'ok': True, 'descr': g.description}
        r.update(arr_out(a))
        r['rec'] = {k: REC[k] for k in ('uniform', 'shuffle', 'wichura', 'shuffle_ok')}
        r['rec'] = json.loads(json.dumps(r['rec']))
    except Exception as e:  # noqa
        r = err(e)
    return r


def one_halton(c):
    reset()
    try:
        np.random.seed(c['seed'])
        a = draws.get_halton_draws(c['ss'], c['n'], symmetric=c['symmetric'], base=c['base'], skip=c['skip'],
                                   shuffled=c['shuffled'])
        r = {'ok': True}
        r.update(arr_out(a))
        r['shuffle'] = list(REC['shuffle'])
        r['shuffle_ok'] = REC['shuffle_ok']
        r['n_uniform'] = len(REC['uniform'])
    except Exception as e:  # noqa
        r = err(e)
    return r


def run_types(cases):
    patch()
    return [one_type(c) for c in cases]


def run_halton(cases):
    patch()
    return [one_halton(c) for c in cases]


def run_history(cases):
    """each case = {'steps': [...]}: the steps run one after the other in ONE fresh process (fork), so that
    whatever a call leaves behind (module state, arrays handed out) is seen by the next one"""
    import os
    patch()
    out = []
    for h in cases:
        rfd, wfd = os.pipe()
        pid = os.fork()
        if pid == 0:
            code = 0
            try:
                os.close(rfd)
                res = []
                for st in h['steps']:
                    res.append(one_type(st) if st['kind'] == 'type' else one_halton(st))
                # arrays handed out earlier must not have been changed by later calls: nothing to re-read here,
                # results were serialised call by call
                with os.fdopen(wfd, 'w') as f:
                    f.write(json.dumps({'ok': True, 'steps': res}))
            except BaseException as e:  # noqa
                code = 1
                try:
                    with os.fdopen(wfd, 'w') as f:
                        f.write(json.dumps(err(e)))
                except Exception:
                    pass
            os._exit(code)
        os.close(wfd)
        with os.fdopen(rfd) as f:
            data = f.read()
        os.waitpid(pid, 0)
        try:
            out.append(json.loads(data))
        except Exception:
            out.append({'ok': False, 'exc': 'history', 'msg': data[-300:]})
    return out


def run_table(cases):
    """Database.generate_draws with a draw_types dict whose insertion order is given explicitly"""
    import pandas as pd
    from biogeme.database import Database
    out = []
    for c in cases:
        try:
            np.random.seed(c['seed'])
            df = pd.DataFrame({'x': [float(i) for i in range(c['ss'])]})
            db = Database('c11', df)
            decl = {}
            for nm, k in c['decl']:
                decl[nm] = k
            t = np.asarray(db.generate_draws(decl, list(c['names']), c['n']), dtype=float)
            r = {'ok': True, 'shape': list(t.shape)}
            if t.ndim == 3 and t.shape[2] == len(c['names']):
                r['columns'] = [t[:, :, i].tolist() for i in range(t.shape[2])]
            out.append(r)
        except Exception as e:  # noqa
            out.append(err(e))
    return out


def run_mlhs(cases):
    patch()
    out = []
    for c in cases:
        reset()
        try:
            np.random.seed(c['seed'])
            u = None if c.get('us') is None else np.array([n / d for n, d in c['us']], dtype=float)
            a = draws.get_latin_hypercube_draws(c['ss'], c['n'], symmetric=c['symmetric'], uniform_numbers=u)
            r = {'ok': True}
            r.update(arr_out(a))
            r['shuffle'] = list(REC['shuffle'])
            r['shuffle_ok'] = REC['shuffle_ok']
            r['n_uniform'] = len(REC['uniform'])
            if c.get('us') is None:
                r['uniform'] = list(REC['uniform'])
        except Exception as e:  # noqa
            r = err(e)
        out.append(r)
    return out


def run_quantile(cases):
    out = []
    for c in cases:
        try:
            u = np.array([float.fromhex(h) for h in c['us']], dtype=float)
            n = len(u)
            with np.errstate(all='ignore'):
                z = draws.get_normal_wichura_draws(1, n, uniform_numbers=u.copy())
            z = np.asarray(z, dtype=float)
            if z.shape != (1, n):
                out.append({'ok': False, 'exc': 'shape', 'msg': str(z.shape)})
                continue
            out.append({'ok': True, 'z': [float(v).hex() for v in z.ravel()]})
        except Exception as e:  # noqa
            out.append(err(e))
    return out


def run_database(cases):
    import pandas as pd
    from biogeme.database import Database
    out = []
    for c in cases:
        try:
            np.random.seed(c['seed'])
            df = pd.DataFrame({'x': [float(i) for i in range(c['ss'])]})
            db = Database('c11', df)
            names = [f'v{i}' for i in range(len(c['keys']))]
            t = db.generate_draws({nm: k for nm, k in zip(names, c['keys'])}, names, c['n'])
            np.random.seed(c['seed'])
            direct = [native_draws.native_random_number_generators[k].generator(c['ss'], c['n']) for k in c['keys']]
            same = all(np.array_equal(np.asarray(t)[:, :, i], direct[i]) for i in range(len(names)))
            out.append({'ok': True, 'shape': list(np.asarray(t).shape), 'same_as_direct': bool(same)})
        except Exception as e:  # noqa
            out.append(err(e))
    return out


def main():
    p = json.load(sys.stdin)
    try:
        res = {'types': run_types, 'halton': run_halton, 'history': run_history, 'table': run_table, 'mlhs': run_mlhs, 'quantile': run_quantile,
               'database': run_database}[p['mode']](p['cases'])
        print('@@' + json.dumps({'ok': True, 'results': res}))
    except Exception as e:  # noqa
        print('@@' + json.dumps({'ok': False, 'exc': type(e).__name__, 'msg': traceback.format_exc()[-1500:]}))


main()
