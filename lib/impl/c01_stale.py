"""History check: a failing engine evaluation followed, in the same process, by a valid one
(both over a small table, i.e. through the engine's per-thread evaluation path)."""
import json, sys, warnings
warnings.filterwarnings('ignore')
import pandas as pd
from biogeme.database import Database
from biogeme.expressions import Numeric, Variable, Elem
db = Database('t', pd.DataFrame({'x': [1.0, 2.0]}))
out = {}
try:
    Elem({1: Variable('x')}, Numeric(7)).get_value_c(database=db, prepare_ids=True)
    out['second'] = 'no error'
except Exception as e:  # noqa
    out['second'] = f'{type(e).__name__}: {str(e)[:120]}'
try:
    v = (Variable('x') + Numeric(2)).get_value_c(database=db, prepare_ids=True)
    out['after'] = [float(z) for z in v]
except Exception as e:  # noqa
    out['after_exc'] = f'{type(e).__name__}: {str(e)[:200]}'
print('@@' + json.dumps(out))
