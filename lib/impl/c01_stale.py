"""History check: a failing engine evaluation followed, in the same process, by a valid one."""
import json, sys, warnings
warnings.filterwarnings('ignore')
from biogeme.expressions import Numeric, log
out = {}
try:
    log(Numeric(-1) * Numeric(1)).get_value_c(prepare_ids=True)
    out['first'] = 'no error'
except Exception as e:  # noqa
    out['first'] = f'{type(e).__name__}: {str(e)[:120]}'
# the engine returns nan/ -inf for log of a negative number on some paths; force a real failure:
from biogeme.expressions import Elem
try:
    Elem({1: Numeric(1)}, Numeric(7)).get_value_c(prepare_ids=True)
    out['second'] = 'no error'
except Exception as e:  # noqa
    out['second'] = f'{type(e).__name__}: {str(e)[:120]}'
try:
    v = (Numeric(1) + Numeric(2)).get_value_c(prepare_ids=True)
    out['after'] = float(v)
except Exception as e:  # noqa
    out['after_exc'] = f'{type(e).__name__}: {str(e)[:200]}'
print('@@' + json.dumps(out))
