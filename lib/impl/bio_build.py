"""Runs inside the implementation subprocess: builds biogeme Expression objects from the JSON rose
tree (same format as bio_bridge.expr_to_json).  Nodes carrying the same 'sid' become ONE Python
object (sharing).  Betas are built with the init value / bounds / status given in `betas`."""
import math


def from_dyadic(m, e):
    return math.ldexp(m, e)


def build(j, betas=None, cache=None):
    import biogeme.expressions as ex
    from biogeme.expressions import (Beta, Variable, Numeric, bioDraws, RandomVariable, bioMultSum,
                                     ConditionalSum, ConditionalTermTuple, Elem, bioLinearUtility,
                                     LinearTermTuple, LogLogit, MonteCarlo, PanelLikelihoodTrajectory,
                                     bioNormalCdf, bioMin, bioMax, BelongsTo, Derive, Integrate, logzero)
    from biogeme.expressions.binary_expressions import And, Or, Plus, Minus, Times, Divide, Power
    from biogeme.expressions.comparison_expressions import (Equal, NotEqual, LessOrEqual, GreaterOrEqual,
                                                             Less, Greater)
    from biogeme.expressions.unary_expressions import UnaryMinus, PowerConstant

    betas = betas or {}
    cache = cache if cache is not None else {}

    BIN = {'Plus': Plus, 'Minus': Minus, 'Times': Times, 'Divide': Divide, 'Power': Power, 'BMin': bioMin,
           'BMax': bioMax, 'And': And, 'Or': Or, 'Eq': Equal, 'Ne': NotEqual, 'Le': LessOrEqual,
           'Ge': GreaterOrEqual, 'Lt': Less, 'Gt': Greater}
    UN = {'UMinus': UnaryMinus, 'Exp': ex.exp, 'Log': ex.log, 'Logzero': logzero, 'Sin': ex.sin, 'Cos': ex.cos,
          'NormalCdf': bioNormalCdf, 'MonteCarlo': MonteCarlo, 'PanelTraj': PanelLikelihoodTrajectory}

    def go(n):
        sid = n.get('sid')
        if sid is not None and sid in cache:
            return cache[sid]
        h, k = n['h'], n['k']
        t = h[0]
        if t == 'Num':
            r = Numeric(from_dyadic(h[1], h[2]))
        elif t == 'Beta':
            b = betas.get(h[1], {})
            r = Beta(h[1], b.get('init', b.get('value', 0.0)), b.get('lb'), b.get('ub'), 1 if h[2] else 0)
        elif t == 'Var':
            r = Variable(h[1])
        elif t == 'Draws':
            r = bioDraws(h[1], h[2])
        elif t == 'RV':
            r = RandomVariable(h[1])
        elif t == 'Bin':
            r = BIN[h[1]](go(k[0]), go(k[1]))
        elif t == 'Un':
            r = UN[h[1]](go(k[0]))
        elif t == 'PowC':
            r = PowerConstant(go(k[0]), from_dyadic(h[1], h[2]))
        elif t == 'Derive':
            r = Derive(go(k[0]), h[1])
        elif t == 'Integrate':
            r = Integrate(go(k[0]), h[1])
        elif t == 'Belongs':
            r = BelongsTo(go(k[0]), set(from_dyadic(m, e) for m, e in h[1]))
        elif t == 'MultSum':
            r = bioMultSum([go(x) for x in k])
        elif t == 'CondSum':
            r = ConditionalSum([ConditionalTermTuple(condition=go(k[i]), term=go(k[i + 1])) for i in range(0, len(k), 2)])
        elif t == 'Elem':
            r = Elem({key: go(x) for key, x in zip(h[1], k[1:])}, go(k[0]))
        elif t == 'LinUtil':
            r = bioLinearUtility([LinearTermTuple(beta=go(k[i]), x=go(k[i + 1])) for i in range(0, len(k), 2)])
        elif t == 'LogLogit':
            uk, ak = h[1], h[2]
            util = {key: go(x) for key, x in zip(uk, k[1:1 + len(uk)])}
            av = {key: go(x) for key, x in zip(ak, k[1 + len(uk):])}
            from biogeme.expressions import _bioLogLogit
            r = _bioLogLogit(util, av, go(k[0]))
        else:
            raise ValueError(f'cannot build {h}')
        if sid is not None:
            cache[sid] = r
        return r

    return go(j)
