"""Implementation side of the C16 streams.  Reads {'mode': ..., 'cases': [...]} on stdin.

mode 'config'   : Configuration(...) / Configuration.from_string / Controller.modify_controller on
                  raw inputs (validation of the generated Gen/Config.v).
mode 'structure': build a formula with catalogs from a structure description, then report
                  everything the model predicts: the catalog tree as built, the controllers, the
                  set of configurations, the iteration, every requested configuration (tree seen
                  through the catalogs, selected names, elementary expressions, value), id round
                  trips and every operator of prepare_operators on requested configurations.
Every library call is wrapped: exceptions are data.
"""
import json
import sys
import traceback

sys.path.insert(0, '/verif/lib/impl')
import bio_bridge  # noqa: E402

import biogeme.expressions as E  # noqa: E402
import biogeme.expressions.binary_expressions as EB  # noqa: E402
import biogeme.expressions.comparison_expressions as EC  # noqa: E402
import biogeme.expressions.unary_expressions as EU  # noqa: E402
from biogeme.expressions import (Beta, Variable, Numeric, Elem, bioMultSum, LogLogit, Expression,  # noqa: E402
                                 NamedExpression, TypeOfElementaryExpression)
from biogeme.catalog import Catalog, segmentation_catalogs, generic_alt_specific_catalogs  # noqa: E402
from biogeme.controller import Controller, CentralController  # noqa: E402
import biogeme.controller as bctrl  # noqa: E402
from biogeme.configuration import Configuration, SelectionTuple  # noqa: E402
from biogeme.segmentation import DiscreteSegmentationTuple  # noqa: E402


def exc(e):
    return {'exc': type(e).__name__, 'msg': str(e)[:300]}


# ------------------------------------------------------------------------ mode 'config'
def run_config(cases):
    out = []
    for c in cases:
        k = c['k']
        try:
            if k == 'mk':
                conf = Configuration([SelectionTuple(a, b) for a, b in c['sels']])
                out.append({'ok': True, 'sels': [list(s) for s in conf.selections], 'id': conf.string_id,
                            'get': conf.get_string_id()})
            elif k == 'parse':
                conf = Configuration.from_string(c['s'])
                out.append({'ok': True, 'sels': [list(s) for s in conf.selections], 'id': conf.string_id})
            elif k == 'modify':
                ctrl = Controller('c', [f's{i}' for i in range(c['size'])])
                ctrl.current_index = c['i']
                r = ctrl.modify_controller(step=c['step'], circular=c['circular'])
                out.append({'ok': True, 'ret': r, 'idx': ctrl.current_index})
            else:
                out.append({'ok': False, 'exc': 'harness', 'msg': f'unknown kind {k}'})
        except Exception as e:  # noqa
            out.append({'ok': False, **exc(e)})
    return out


# ------------------------------------------------------------------------ building structures
BINCLS = {'Plus': 'Plus', 'Minus': 'Minus', 'Times': 'Times', 'Divide': 'Divide', 'Power': 'Power',
          'BMin': 'bioMin', 'BMax': 'bioMax', 'And': 'And', 'Or': 'Or', 'Eq': 'Equal', 'Ne': 'NotEqual',
          'Le': 'LessOrEqual', 'Ge': 'GreaterOrEqual', 'Lt': 'Less', 'Gt': 'Greater'}
UNCLS = {'UMinus': 'UnaryMinus', 'Exp': 'exp', 'Log': 'log', 'Logzero': 'logzero', 'Sin': 'sin', 'Cos': 'cos',
         'NormalCdf': 'bioNormalCdf', 'MonteCarlo': 'MonteCarlo', 'PanelTraj': 'PanelLikelihoodTrajectory'}


class Builder:
    def __init__(self, spec):
        self.spec = spec
        self.objects = {}       # history mode: id -> expression built at some step
        self.all_ctrls = {}     # every Controller object seen, by name
        self.controllers = {}
        for name, specs in spec.get('controllers', {}).items():
            self.controllers[name] = Controller(name, specs)
            self.all_ctrls[name] = self.controllers[name]
        self.helpers = []
        for h in spec.get('helpers', []):
            betas = [Beta(n, v, None, None, 1 if fx else 0) for n, fx, v in h['betas']]
            segs = tuple(
                DiscreteSegmentationTuple(Variable(s['var']), {int(k): v for k, v in s['map']}, reference=s.get('ref'))
                for s in h['segs'])
            if h['kind'] == 'seg':
                self.helpers.append(segmentation_catalogs(h['gname'], betas, segs, h['max']))
            else:
                self.helpers.append(generic_alt_specific_catalogs(
                    h['gname'], betas, tuple(h['alts']), segs if h['segs'] else (None if h.get('none') else ()),
                    h['max']))
        for h in self.helpers:
            cats = h if not (h and isinstance(h[0], dict)) else [c for d in h for c in d.values()]
            for top in cats:
                for cat in all_catalogs(top, []):
                    self.all_ctrls.setdefault(cat.controlled_by.controller_name, cat.controlled_by)

    def node(self, n):
        t = n['t']
        if t == 'ref':
            return self.objects[n['id']]
        if t == 'num':
            return Numeric(n['v'])
        if t == 'beta':
            return Beta(n['n'], n.get('v', 0), None, None, 1 if n.get('fixed') else 0)
        if t == 'var':
            return Variable(n['n'])
        if t == 'draws':
            return E.bioDraws(n['n'], n['type'])
        if t == 'bin':
            cls = getattr(EB, BINCLS[n['op']], None) or getattr(EC, BINCLS[n['op']])
            return cls(self.node(n['k'][0]), self.node(n['k'][1]))
        if t == 'un':
            return getattr(EU, UNCLS[n['op']])(self.node(n['k'][0]))
        if t == 'powc':
            return self.node(n['k'][0]) ** n['c']
        if t == 'msum':
            return bioMultSum([self.node(k) for k in n['k']])
        if t == 'elem':
            return Elem({k: self.node(v) for k, v in zip(n['keys'], n['k'])}, self.node(n['key']))
        if t == 'loglogit':
            util = {k: self.node(v) for k, v in zip(n['keys'], n['util'])}
            av = None if n['av'] is None else {k: self.node(v) for k, v in zip(n['keys'], n['av'])}
            return LogLogit(util, av, self.node(n['choice']))
        if t == 'cat':
            members = [(nm, self.node(m)) for nm, m in n['m']]
            ctrl = None
            if n.get('ctrl') is not None:
                if n.get('fresh_ctrl'):  # malformed probe: a second Controller object with a used name
                    ctrl = Controller(n['ctrl'], [nm for nm, _ in members])
                else:
                    ctrl = self.controllers.get(n['ctrl']) or self.all_ctrls[n['ctrl']]
            if n.get('ctor') == 'dict':
                cat = Catalog.from_dict(n['name'], dict(members), controlled_by=ctrl)
            else:
                cat = Catalog(n['name'], [NamedExpression(nm, m) for nm, m in members], controlled_by=ctrl)
            self.all_ctrls.setdefault(cat.controlled_by.controller_name, cat.controlled_by)
            return cat
        if t == 'seg':
            return self.helpers[n['h']][n['b']]
        if t == 'gas':
            return self.helpers[n['h']][n['b']][n['alt']]
        raise ValueError(f'unknown node type {t}')


def tree_with_catalogs(x):
    """The object graph as built, catalogs kept (JSON form of Model/Catalog.v cexpr)."""
    cn = type(x).__name__
    if isinstance(x, Catalog):
        return {'cat': x.name, 'ctrl': x.controlled_by.controller_name,
                'specs': list(x.controlled_by.specification_names),
                'm': [[nm, tree_with_catalogs(m)] for nm, m in x.named_expressions]}
    d = bio_bridge.dyadic
    if cn == 'Numeric':
        return {'h': ['Num'] + d(x.value), 'k': []}
    if cn == 'Beta':
        return {'h': ['Beta', x.name, bool(x.status != 0)], 'k': []}
    if cn == 'Variable':
        return {'h': ['Var', x.name], 'k': []}
    if cn == 'bioDraws':
        return {'h': ['Draws', x.name, x.drawType], 'k': []}
    if cn in bio_bridge.BIN:
        return {'h': ['Bin', bio_bridge.BIN[cn]], 'k': [tree_with_catalogs(x.left), tree_with_catalogs(x.right)]}
    if cn in bio_bridge.UN:
        return {'h': ['Un', bio_bridge.UN[cn]], 'k': [tree_with_catalogs(x.child)]}
    if cn == 'PowerConstant':
        return {'h': ['PowC'] + d(x.exponent), 'k': [tree_with_catalogs(x.child)]}
    if cn == 'bioMultSum':
        return {'h': ['MultSum'], 'k': [tree_with_catalogs(c) for c in x.children]}
    if cn == 'Elem':
        keys = [int(k) for k in x.dict_of_expressions.keys()]
        return {'h': ['Elem', keys], 'k': [tree_with_catalogs(x.keyExpression)]
                + [tree_with_catalogs(v) for v in x.dict_of_expressions.values()]}
    if cn == 'LogLogit':
        uk = [int(k) for k in x.util.keys()]
        ak = [int(k) for k in x.av.keys()]
        return {'h': ['LogLogit', uk, ak], 'k': [tree_with_catalogs(x.choice)]
                + [tree_with_catalogs(v) for v in x.util.values()] + [tree_with_catalogs(v) for v in x.av.values()]}
    raise TypeError(f'unsupported class {cn}')


def all_catalogs(x, acc):
    """every Catalog object below x, through ALL members (selected or not), with repetition"""
    if isinstance(x, Catalog):
        acc.append(x)
    for c in x.children:
        all_catalogs(c, acc)
    return acc


ELEM_TYPES = {'free': TypeOfElementaryExpression.FREE_BETA, 'fixed': TypeOfElementaryExpression.FIXED_BETA,
              'var': TypeOfElementaryExpression.VARIABLE}


def observe(expr, want_value, view=True, engine=False):
    """what the formula looks like through its catalogs, by the delegating methods"""
    o = {}
    try:
        o['tree'] = bio_bridge.expr_to_json(expr)
    except Exception as e:  # noqa
        o['tree_exc'] = exc(e)
    try:
        o['current'] = expr.current_configuration().string_id
    except Exception as e:  # noqa
        o['current_exc'] = exc(e)
    try:
        o['selected'] = [[c.name, c.controlled_by.controller_name, c.selected_name(),
                          c.controlled_by.current_index, c.controlled_by.current_name()]
                         for c in all_catalogs(expr, [])]
    except Exception as e:  # noqa
        o['selected_exc'] = exc(e)
    try:
        o['elem'] = {k: sorted(expr.set_of_elementary_expression(t)) for k, t in ELEM_TYPES.items()}
        o['elem_dict'] = {k: sorted(expr.dict_of_elementary_expression(t).keys()) for k, t in ELEM_TYPES.items()}
    except Exception as e:  # noqa
        o['elem_exc'] = exc(e)
    if view:
        o['view'] = generic_view(expr, engine)
    if want_value:
        try:
            v = float(expr.get_value())
            o['value'] = v.hex()
        except Exception as e:  # noqa
            o['value_exc'] = exc(e)
    return o


_DB = None


def database():
    global _DB
    if _DB is None:
        import pandas as pd
        import biogeme.database as bdb
        cols = ['x', 'y', 'z', 'tt', 'cost', 'inc', 'male', 'age', 'lang']
        _DB = bdb.Database('c16', pd.DataFrame({k: [1.0, 2.0] for k in cols}))
    return _DB


_SIG = None


def canonical_signature(expr):
    """get_signature() with the object identities eliminated: every id is replaced, recursively, by
    the canonical form of the line that defines it (sharing of sub-objects becomes invisible)."""
    import re
    from biogeme.expressions import IdManager
    idm = IdManager([expr], database(), 3)
    expr.set_id_manager(idm)
    lines = [l.decode() for l in expr.get_signature()]
    table = {}
    rx = re.compile(r'^<(\w+)>\{(\d+)\}(.*)$', re.S)
    for l in lines:
        m = rx.match(l)
        if not m:
            raise ValueError(f'unparsable signature line {l!r}')
        table[m.group(2)] = (m.group(1), m.group(3))
    root = rx.match(lines[-1]).group(2)

    def canon(i, depth=0):
        if depth > 200:
            raise ValueError('cyclic signature')
        name, rest = table[i]
        rest = re.sub(r'\d+', lambda mm: '[' + canon(mm.group(0), depth + 1) + ']' if mm.group(0) in table else mm.group(0), rest)
        return f'<{name}>{rest}'

    return canon(root)


def shape(x):
    """the tree as seen through get_children() only"""
    return [shape(c) for c in x.get_children()]


SEARCHED = ['MonteCarlo', 'PanelLikelihoodTrajectory', 'bioDraws', 'Beta', 'Variable', 'Numeric', 'Plus', 'Minus', 'Times',
            'Divide', 'Power', 'bioMin', 'bioMax', 'And', 'Or', 'Equal', 'NotEqual', 'LessOrEqual', 'GreaterOrEqual', 'Less',
            'Greater', 'UnaryMinus', 'exp', 'log', 'logzero', 'sin', 'cos', 'bioNormalCdf', 'PowerConstant', 'bioMultSum',
            'Elem', 'LogLogit', 'Catalog', 'Integrate', 'RandomVariable']


def call(f):
    try:
        r = f()
        if isinstance(r, (set, frozenset)):
            return sorted(str(x) for x in r)
        if isinstance(r, tuple):
            return [sorted(str(x) for x in part) if isinstance(part, (set, frozenset)) else str(part) for part in r]
        return r
    except Exception as e:  # noqa
        return {'exc': type(e).__name__}


def engine_value(expr):
    """value through the C++ engine on the 2-row database, draws seeded"""
    import numpy as np
    try:
        np.random.seed(12345)
        v = expr.get_value_c(database=database(), number_of_draws=5, prepare_ids=True)
        return [float(a).hex() for a in np.atleast_1d(v)]
    except Exception as e:  # noqa
        return {'exc': type(e).__name__, 'msg': str(e)[:200]}


def generic_view(expr, engine=False):
    """every tree operation that a catalog delegates to its selected member, by its generic interface"""
    o = {}
    try:
        o['shape'] = shape(expr)
    except Exception as e:  # noqa
        o['shape'] = exc(e)
    o['embed'] = {t: call(lambda t=t: bool(expr.embed_expression(t))) for t in SEARCHED}
    o['requires_draws'] = call(lambda: bool(expr.requires_draws()))
    o['count_panel'] = call(expr.count_panel_trajectory_expressions)
    o['check_draws'] = call(expr.check_draws)
    o['check_rv'] = call(expr.check_rv)
    o['check_panel'] = call(expr.check_panel_trajectory)
    try:
        o['sig'] = canonical_signature(expr)
    except Exception as e:  # noqa
        o['sig'] = {'exc': type(e).__name__}
    if engine:   # only on formulas the harness declares safe for the C++ engine (it can crash on ill-formed ones)
        o['engine'] = engine_value(expr)
    return o


def hand_value(spec_node):
    """value of a catalog-free formula, built and evaluated by the library (get_value)"""
    try:
        return float(Builder({}).node(spec_node).get_value()).hex()
    except Exception as e:  # noqa
        return exc(e)


def run_structure(c):
    res = {}
    try:
        b = Builder(c['spec'])
        expr = b.node(c['spec']['formula'])
    except Exception as e:  # noqa
        return {'built': False, **exc(e)}
    res['built'] = True
    try:
        res['ctree'] = tree_with_catalogs(expr)
    except Exception as e:  # noqa
        res['ctree_exc'] = exc(e)
    # ---- central controller
    try:
        if c.get('explicit_max') is not None:
            cc = CentralController(expr, maximum_number_of_configurations=c['explicit_max'])
            expr.set_central_controller(cc)
        else:
            cc = expr.set_central_controller()
        res['central'] = True
    except Exception as e:  # noqa
        res['central'] = False
        res['central_exc'] = exc(e)
        return res
    res['controllers'] = [[k.controller_name, list(k.specification_names)] for k in cc.controllers]
    try:
        res['number'] = expr.number_of_multiple_expressions()
        confs = expr.set_of_configurations()
        res['configs'] = None if confs is None else sorted(
            [[x.string_id, [list(s) for s in x.selections]] for x in confs])
        res['ids'] = None if cc.all_configurations_ids is None else sorted(cc.all_configurations_ids)
    except Exception as e:  # noqa
        res['set_exc'] = exc(e)
    # ---- iteration
    if c.get('iterate'):
        try:
            seq = []
            same = True
            for e in expr:
                same = same and (e is expr)
                seq.append(e.current_configuration().string_id)
                if len(seq) > c['iterate']:
                    break
            res['iteration'] = seq
            res['iteration_same_object'] = same
        except Exception as e:  # noqa
            res['iteration_exc'] = exc(e)
    # ---- requested configurations
    obs = []
    for q in c.get('configure', []):
        r = {}
        try:
            conf = Configuration([SelectionTuple(a, b) for a, b in q['sels']])
            r['id'] = conf.string_id
            expr.configure_catalogs(conf)
            r.update(observe(expr, q.get('value', False), engine=bool(q.get('engine'))))
            if q.get('hand') is not None:
                try:
                    r['hand_view'] = generic_view(Builder({}).node(q['hand']), bool(q.get('engine')))
                except Exception as e:  # noqa
                    r['hand_view'] = exc(e)
            if q.get('hand') is not None and q.get('value', False):
                r['hand_value'] = hand_value(q['hand'])
        except Exception as e:  # noqa
            r['exc'] = exc(e)
        obs.append(r)
    res['configured'] = obs
    # ---- id round trips
    rt = []
    for s in c.get('roundtrip', []):
        try:
            conf = Configuration.from_string(s)
            again = Configuration.from_string(conf.string_id)
            rt.append({'ok': True, 'id': conf.string_id, 'sels': [list(x) for x in conf.selections],
                       'eq': bool(conf == again), 'hash_eq': hash(conf) == hash(again),
                       'in_set': None if expr.set_of_configurations() is None else bool(conf in expr.set_of_configurations())})
        except Exception as e:  # noqa
            rt.append({'ok': False, **exc(e)})
    res['roundtrip'] = rt
    # ---- operators
    if c.get('ops') is not None:
        try:
            ops = cc.prepare_operators()
            res['op_names'] = list(ops.keys())
        except Exception as e:  # noqa
            res['ops_exc'] = exc(e)
            ops = None
        if ops is not None:
            record = []
            orig = bctrl.random.choices

            def spy(population, *a, **k):
                r = orig(population, *a, **k)
                record.append(list(r))
                return r

            calls = []
            for q in c['ops']:
                name = q['op']
                r = {}
                try:
                    conf = Configuration.from_string(q['cfg'])
                    del record[:]
                    bctrl.random.choices = spy
                    try:
                        new, k = ops[name](conf, q['step'])
                    finally:
                        bctrl.random.choices = orig
                    r = {'ok': True, 'id': new.string_id, 'ret': k, 'choice': record[0] if record else None}
                    inv = q.get('inverse')
                    if inv is not None:
                        back, k2 = ops[inv](new, q['step'])
                        r['back'] = back.string_id
                        r['back_ret'] = k2
                except Exception as e:  # noqa
                    r = {'ok': False, **exc(e)}
                calls.append(r)
            res['calls'] = calls
    return res


def observe_object(expr, want_value):
    """one object of a history, observed without selecting anything"""
    o = observe(expr, want_value, view=False)
    try:
        o['current_sels'] = [list(x) for x in expr.current_configuration().selections]
    except Exception as e:  # noqa
        o['current_sels_exc'] = exc(e)
    try:
        o['number'] = expr.number_of_multiple_expressions()
        confs = expr.set_of_configurations()
        o['ids'] = None if confs is None else sorted(c.string_id for c in confs)
    except Exception as e:  # noqa
        o['set_exc'] = exc(e)
    return o


def run_history(c):
    """steps executed in order; after every step every object built so far is observed"""
    b = Builder({'controllers': c.get('controllers', {}), 'helpers': c.get('helpers', [])})
    out = []
    record = []
    orig = bctrl.random.choices

    def spy(population, *a, **k):
        r = orig(population, *a, **k)
        record.append(list(r))
        return r

    for st in c['steps']:
        r = {'ok': True}
        try:
            do = st['do']
            if do == 'build':
                b.objects[st['id']] = b.node(st['node'])
            elif do == 'configure':
                b.objects[st['f']].configure_catalogs(Configuration([SelectionTuple(x, y) for x, y in st['sels']]))
            elif do == 'select':
                b.objects[st['f']].select_expression(st['ctrl'], st['index'])
            elif do == 'op':
                obj = b.objects[st['f']]
                cc = obj.central_controller if obj.central_controller is not None else obj.set_central_controller()
                ops = cc.prepare_operators()
                del record[:]
                bctrl.random.choices = spy
                try:
                    new, k = ops[st['op']](obj.current_configuration(), st['step'])
                finally:
                    bctrl.random.choices = orig
                r['id'] = new.string_id
                r['ret'] = k
                r['choice'] = record[0] if record else None
            elif do == 'iterate':
                it = iter(b.objects[st['f']])
                seen = []
                for _ in range(st['n']):
                    try:
                        e = next(it)
                    except StopIteration:
                        break
                    seen.append(e.current_configuration().string_id)
                r['seen'] = seen
            elif do == 'ctrl':
                k = b.all_ctrls[st['ctrl']]
                call = st['call']
                if call == 'set_index':
                    k.set_index(st['arg'])
                elif call == 'set_name':
                    k.set_name(st['arg'])
                elif call == 'reset_selection':
                    k.reset_selection()
                elif call == 'modify':
                    r['ret'] = k.modify_controller(step=st['arg'], circular=st['circular'])
                else:
                    raise ValueError(call)
            else:
                raise ValueError(do)
        except Exception as e:  # noqa
            r = {'ok': False, **exc(e)}
        try:
            r['ctrl_state'] = {n: k.current_index for n, k in b.all_ctrls.items()}
        except Exception as e:  # noqa
            r['ctrl_state_exc'] = exc(e)
        obs = {}
        for i in st.get('observe', []):
            if i in b.objects:
                try:
                    obs[str(i)] = observe_object(b.objects[i], c.get('value', False))
                except Exception as e:  # noqa
                    obs[str(i)] = {'obs_exc': exc(e)}
        r['obs'] = obs
        out.append(r)
    return out


def main():
    payload = json.load(sys.stdin)
    mode = payload['mode']
    if mode == 'config':
        out = run_config(payload['cases'])
    elif mode == 'history':
        out = []
        for c in payload['cases']:
            try:
                out.append({'steps': run_history(c)})
            except Exception as e:  # noqa
                out.append({'harness': True, **exc(e), 'tb': traceback.format_exc()[-800:]})
    else:
        out = []
        for c in payload['cases']:
            try:
                out.append(run_structure(c))
            except Exception as e:  # noqa
                out.append({'built': False, 'harness': True, **exc(e), 'tb': traceback.format_exc()[-800:]})
    print('@@' + json.dumps(out))


main()
