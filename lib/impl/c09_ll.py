"""Implementation side of stream C09/panel_ll.

For every case: a panel table (identifier column + dyadic positive columns x, y), a formula F0 without
draws and a formula G with one random variable whose draws come from a DETERMINISTIC user-defined
generator: draw k of individual number i is 1 + (32*i + k)/1024.  Reports, as exact rationals,
  * BIOGEME.simulate of PanelLikelihoodTrajectory(F0), MonteCarlo(PanelLikelihoodTrajectory(G)) and their logs,
  * BIOGEME.calculate_likelihood (scaled and not) of log(MonteCarlo(PanelLikelihoodTrajectory(G))) and of
    log(PanelLikelihoodTrajectory(F0)),
  * Expression.get_value_c of PanelLikelihoodTrajectory(F0) on the database,
  * sample size, number of observations, shape of the draws table, the calls received by the generator,
  * whether a variable outside the trajectory operator is refused.
Exceptions are data, not crashes."""
import json
import math
import sys
import logging

import numpy as np
import pandas as pd

logging.disable(logging.CRITICAL)

from biogeme.database import Database  # noqa: E402
import biogeme.biogeme as bio  # noqa: E402
from biogeme.parameters import Parameters  # noqa: E402
from biogeme.expressions import (Variable, Beta, PanelLikelihoodTrajectory, MonteCarlo, bioDraws, log)  # noqa: E402


def ratio(v):
    v = float(v)
    if math.isnan(v):
        return 'nan'
    if math.isinf(v):
        return 'inf' if v > 0 else '-inf'
    n, d = v.as_integer_ratio()
    return [n, d]


def scaled_int(v, scale):
    """identifier -> exact integer (identifier * scale); integers never go through a float;
    None if not integral (a corrupted identifier)"""
    if isinstance(v, (int, np.integer)) and not isinstance(v, bool):
        return int(v) * scale
    f = float(v) * scale
    if f != f or math.isinf(f) or f != int(f):
        return None
    return int(f)


def part(fun):
    try:
        return {'ok': True, 'v': fun()}
    except Exception as e:  # noqa
        return {'ok': False, 'exc': type(e).__name__, 'msg': str(e)[:300]}


def run_case(c):
    n = len(c['ids'])
    scale = c['scale']
    if c['dtype'] == 'float':
        col = np.array([i / scale for i in c['ids']], dtype=np.float64)
    else:
        col = np.array(c['ids'], dtype=np.int64)
    df = pd.DataFrame({'x': np.array(c['x'], dtype=np.float64), 'pid': col,
                       'y': np.array(c['y'], dtype=np.float64)})
    d = Database('c09', df)
    calls = []

    def tagged(sample_size, number_of_draws):
        calls.append([int(sample_size), int(number_of_draws)])
        return np.array([[1.0 + (32 * i + k) / 1024.0 for k in range(number_of_draws)]
                         for i in range(sample_size)], dtype=np.float64).reshape(sample_size, number_of_draws)

    d.set_random_number_generators({'TAGGED': (tagged, 'deterministic tagged draws')})
    res = {}
    p = part(lambda: d.panel('pid'))
    if not p['ok']:
        return {'panel': p}
    res['panel'] = {'ok': True}
    x, y = Variable('x'), Variable('y')
    b = Beta('b', 1.0, None, None, 0)
    xi = bioDraws('xi', 'TAGGED')
    kind = c['kind']
    if kind == 'x':
        f0, g, betas = x, x * xi, {}
    elif kind == 'bx':
        f0, g, betas = b * x, b * x * xi, {'b': c['beta']}
    else:
        f0, g, betas = x + b * y, x + b * y * xi, {'b': c['beta']}
    R, T = c['R'], c['threads']

    def simulate():
        formulas = {'plain': PanelLikelihoodTrajectory(f0), 'mc': MonteCarlo(PanelLikelihoodTrajectory(g)),
                    'lplain': log(PanelLikelihoodTrajectory(f0)), 'lmc': log(MonteCarlo(PanelLikelihoodTrajectory(g)))}
        B = bio.BIOGEME(d, formulas, parameters=Parameters(), number_of_draws=R, number_of_threads=T)
        B.generate_html = False
        B.generate_pickle = False
        out = B.simulate(betas)
        return {'index': [scaled_int(v, scale) for v in out.index.tolist()],
                **{k: [ratio(v) for v in out[k].tolist()] for k in formulas}}

    res['sim'] = part(simulate)

    def loglike(formula):
        def go():
            B = bio.BIOGEME(d, formula, parameters=Parameters(), number_of_draws=R, number_of_threads=T)
            xv = [betas[k] for k in B.id_manager.free_betas.names]
            out = {'unscaled': ratio(B.calculate_likelihood(xv, scaled=False)),
                   'scaled': ratio(B.calculate_likelihood(xv, scaled=True)),
                   'free': list(B.id_manager.free_betas.names)}
            if xv:   # every quantity returned by calculate_likelihood_and_derivatives, scaled or not
                for name, sc in (('d_unscaled', False), ('d_scaled', True)):
                    o = B.calculate_likelihood_and_derivatives(xv, scaled=sc, hessian=True, bhhh=True)
                    out[name] = {'function': ratio(o.function),
                                 'gradient': [ratio(v) for v in np.ravel(o.gradient).tolist()],
                                 'hessian': [ratio(v) for v in np.ravel(o.hessian).tolist()],
                                 'bhhh': [ratio(v) for v in np.ravel(o.bhhh).tolist()]}
            return out
        return go

    res['ll_mc'] = part(loglike(log(MonteCarlo(PanelLikelihoodTrajectory(g)))))
    res['ll_plain'] = part(loglike(log(PanelLikelihoodTrajectory(f0))))
    res['gv'] = part(lambda: [ratio(v) for v in np.atleast_1d(
        PanelLikelihoodTrajectory(f0).get_value_c(database=d, betas=betas or None, prepare_ids=True)).tolist()])
    res['sample_size'] = part(lambda: int(d.get_sample_size()))
    res['n_obs'] = part(lambda: int(d.get_number_of_observations()))
    res['draws_shape'] = part(lambda: [int(v) for v in d.theDraws.shape])
    res['gen_calls'] = calls
    res['map'] = part(lambda: [[scaled_int(k, scale), int(a), int(b_)] for k, (a, b_) in
                               zip(d.individualMap.index.tolist(), d.individualMap.values.tolist())])

    def outside():
        try:
            bio.BIOGEME(d, log(x), parameters=Parameters(), number_of_threads=1)
        except Exception as e:  # noqa
            return type(e).__name__
        return 'accepted'

    if c.get('audit'):
        res['outside'] = part(outside)
    return res


def run_steps(c):
    """History kind 'steps': one Database object; a sequence of declarations Database.panel(column) (possibly
    on different columns, possibly refused), direct edits of database.data (not through Database.remove) and
    evaluations through every entry point (one-expression calculator: get_value_c, get_value_and_derivatives,
    values_from_database, create_function; BIOGEME objects built afterwards).  Every step reports data."""
    scale = c['scale']

    def idval(v):
        return v / scale if c['dtype'] == 'float' else int(v)

    def idcol(vals):
        if c['dtype'] == 'float':
            return np.array([v / scale for v in vals], dtype=np.float64)
        return np.array(vals, dtype=np.int64)

    df = pd.DataFrame({'x': np.array(c['x'], dtype=np.float64), 'pid': idcol(c['cols']['pid']),
                       'y': np.array(c['y'], dtype=np.float64), 'hid': idcol(c['cols']['hid'])})
    d = Database('c09s', df)
    calls = []

    def tagged(sample_size, number_of_draws):
        calls.append([int(sample_size), int(number_of_draws)])
        return np.array([[1.0 + (32 * i + k) / 1024.0 for k in range(number_of_draws)]
                         for i in range(sample_size)], dtype=np.float64).reshape(sample_size, number_of_draws)

    d.set_random_number_generators({'TAGGED': (tagged, 'deterministic tagged draws')})
    R, T, kind, beta = c['R'], c['threads'], c['kind'], c['beta']
    betas = {} if kind == 'x' else {'b': beta}

    def make():
        x, y = Variable('x'), Variable('y')
        b = Beta('b', beta, None, None, 0)
        xi = bioDraws('xi', 'TAGGED')
        if kind == 'x':
            return x, x * xi
        if kind == 'bx':
            return b * x, b * x * xi
        return x + b * y, x + b * y * xi

    created = {}

    def snapshot():
        out = {'xs': [float(v) for v in d.data['x'].tolist()], 'col': d.panelColumn}
        if d.individualMap is not None:
            out['map'] = [[scaled_int(k, scale), int(a), int(b_)] for k, (a, b_) in
                          zip(d.individualMap.index.tolist(), d.individualMap.values.tolist())]
            out['sample_size'] = int(d.get_sample_size())
        if d.theDraws is not None:
            out['draws_shape'] = [int(v) for v in d.theDraws.shape]
        return out

    def lst(v):
        return [ratio(t) for t in np.atleast_1d(np.asarray(v, dtype=np.float64)).ravel().tolist()]

    def evaluate(entry):
        f0, g = make()
        if entry == 'gv_plain':
            return lst(PanelLikelihoodTrajectory(f0).get_value_c(database=d, prepare_ids=True))
        if entry == 'gv_mc':
            return lst(MonteCarlo(PanelLikelihoodTrajectory(g)).get_value_c(
                database=d, number_of_draws=R, prepare_ids=True))
        if entry == 'gvd_plain':
            return lst(PanelLikelihoodTrajectory(f0).get_value_and_derivatives(
                database=d, gradient=False, hessian=False, bhhh=False, aggregation=False,
                prepare_ids=True).functions)
        if entry == 'gvd_sum':
            return ratio(log(PanelLikelihoodTrajectory(f0)).get_value_and_derivatives(
                database=d, gradient=False, hessian=False, bhhh=False, aggregation=True,
                prepare_ids=True).function)
        if entry == 'vfd':
            return lst(d.values_from_database(PanelLikelihoodTrajectory(f0)))
        if entry in ('cf_make', 'cf_call'):
            if entry == 'cf_make' or 'fn' not in created:
                created['fn'] = log(PanelLikelihoodTrajectory(f0)).create_function(
                    database=d, gradient=False, hessian=False, bhhh=False)
                if entry == 'cf_make':
                    return 'made'
            out = created['fn']([beta] if betas else [])
            return ratio(out.function if hasattr(out, 'function') else out)
        if entry == 'bio_sim':
            B = bio.BIOGEME(d, {'plain': PanelLikelihoodTrajectory(f0), 'mc': MonteCarlo(PanelLikelihoodTrajectory(g))},
                            parameters=Parameters(), number_of_draws=R, number_of_threads=T)
            out = B.simulate(betas)
            return {'index': [scaled_int(v, scale) for v in out.index.tolist()],
                    'plain': lst(out['plain'].to_numpy()), 'mc': lst(out['mc'].to_numpy())}
        if entry == 'bio_ll':
            B = bio.BIOGEME(d, log(PanelLikelihoodTrajectory(f0)), parameters=Parameters(), number_of_threads=T)
            xv = [betas[k] for k in B.id_manager.free_betas.names]
            return {'unscaled': ratio(B.calculate_likelihood(xv, scaled=False)),
                    'scaled': ratio(B.calculate_likelihood(xv, scaled=True))}
        raise ValueError(f'unknown entry {entry}')

    def edit(st):
        op = st['op']
        if op == 'append':
            rows = st['rows']
            new = pd.DataFrame({'x': np.array([r[2] for r in rows], dtype=np.float64),
                                'pid': idcol([r[0] for r in rows]),
                                'y': np.array([r[3] for r in rows], dtype=np.float64),
                                'hid': idcol([r[1] for r in rows])})
            d.data = pd.concat([d.data, new], ignore_index=True)
        elif op == 'setid':
            d.data.loc[d.data[st['col']] == idval(st['from']), st['col']] = idval(st['to'])
        elif op == 'dropids':
            d.data = d.data[~d.data[st['col']].isin([idval(v) for v in st['ids']])]
        elif op == 'droprows':
            d.data = d.data[~d.data['x'].isin(st['x'])]
        elif op == 'permute':
            d.data = d.data.iloc[st['perm']]
        else:
            raise ValueError(f'unknown edit {op}')
        return True

    out = []
    for st in c['steps']:
        if st['do'] == 'panel':
            r = part(lambda: d.panel(st['col']) or True)
        elif st['do'] == 'eval':
            r = part(lambda: evaluate(st['entry']))
        else:
            r = part(lambda: edit(st))
        r['after'] = part(snapshot)
        out.append(r)
    return {'panel': {'ok': True}, 'steps': out, 'gen_calls': calls}


def run_object(c):
    """History kind 'object': ONE BIOGEME object built on panel data; afterwards the table changes
    (Database.remove of flagged rows, or a direct drop of rows through database.data), and the same object is
    asked for the log likelihood (scaled or not), its derivatives, a simulation -- in the order given."""
    scale = c['scale']
    if c['dtype'] == 'float':
        col = np.array([i / scale for i in c['ids']], dtype=np.float64)
    else:
        col = np.array(c['ids'], dtype=np.int64)
    df = pd.DataFrame({'x': np.array(c['x'], dtype=np.float64), 'pid': col,
                       'y': np.array(c['y'], dtype=np.float64), 'rm': np.array(c['rm'], dtype=np.int64)})
    d = Database('c09o', df)

    def tagged(sample_size, number_of_draws):
        return np.array([[1.0 + (32 * i + k) / 1024.0 for k in range(number_of_draws)]
                         for i in range(sample_size)], dtype=np.float64).reshape(sample_size, number_of_draws)

    d.set_random_number_generators({'TAGGED': (tagged, 'deterministic tagged draws')})
    p = part(lambda: d.panel('pid'))
    if not p['ok']:
        return {'panel': p}
    x, y = Variable('x'), Variable('y')
    b = Beta('b', 1.0, None, None, 0)
    xi = bioDraws('xi', 'TAGGED')
    kind = c['kind']
    if kind == 'bx':
        f0, g = b * x, b * x * xi
    else:
        f0, g = x + b * y, x + b * y * xi
    beta = c['beta']
    state = {}

    def build():
        state['B'] = bio.BIOGEME(d, {'loglike': log(PanelLikelihoodTrajectory(f0)), 'plain': PanelLikelihoodTrajectory(f0),
                                     'mc': MonteCarlo(PanelLikelihoodTrajectory(g))},
                                 parameters=Parameters(), number_of_draws=c['R'], number_of_threads=c['threads'])
        return True

    res = {'panel': {'ok': True}, 'build': part(build), 'steps': []}
    if not res['build']['ok']:
        return res
    B = state['B']

    def do(a):
        if a == 'remove':
            d.remove(Variable('rm'))
            return True
        if a == 'droprows':
            d.data = d.data[d.data['rm'] == 0]
            return True
        if a == 'll':
            return ratio(B.calculate_likelihood([beta], scaled=False))
        if a == 'lls':
            return ratio(B.calculate_likelihood([beta], scaled=True))
        if a in ('lld', 'llds'):
            o = B.calculate_likelihood_and_derivatives([beta], scaled=(a == 'llds'), hessian=False, bhhh=False)
            return ratio(o.function)
        if a == 'sim':
            out = B.simulate({'b': beta})
            return {'index': [scaled_int(v, scale) for v in out.index.tolist()],
                    'plain': [ratio(v) for v in out['plain'].tolist()], 'mc': [ratio(v) for v in out['mc'].tolist()],
                    'loglike': [ratio(v) for v in out['loglike'].tolist()]}
        raise ValueError(a)

    for a in c['seq']:
        r = part(lambda: do(a))
        r['sample_size'] = part(lambda: int(d.get_sample_size()))
        res['steps'].append(r)
    return res


class InjectedFault(Exception):
    """raised by the harness inside the k-th call of BIOGEME.optimize"""


def run_history(c):
    """History kind 'bootstrap': one BIOGEME object on panel data; estimate(run_bootstrap=True) with a few
    replicates, optionally interrupted by an exception raised (by the harness) inside the k-th call of
    optimize (k >= 2: a bootstrap replicate) and caught by the caller; then the SAME object evaluates the
    log likelihood and simulates.  Formula: log(PanelLikelihoodTrajectory(x + b*y)), y of mixed signs."""
    n = len(c['ids'])
    scale = c['scale']
    if c['dtype'] == 'float':
        col = np.array([i / scale for i in c['ids']], dtype=np.float64)
    else:
        col = np.array(c['ids'], dtype=np.int64)
    df = pd.DataFrame({'x': np.array(c['x'], dtype=np.float64), 'pid': col,
                       'y': np.array(c['y'], dtype=np.float64)})
    d = Database('c09h', df)
    p = part(lambda: d.panel('pid'))
    if not p['ok']:
        return {'panel': p}
    res = {'panel': {'ok': True}, 'history': True}
    x, y = Variable('x'), Variable('y')
    b = Beta('b', 0.0, -2.0, 2.0, 0)
    traj = PanelLikelihoodTrajectory(x + b * y)
    formulas = {'loglike': log(traj), 'traj': PanelLikelihoodTrajectory(x + b * y)}
    b0 = c['beta']
    state = {}

    def build():
        np.random.seed(c['np_seed'])
        B = bio.BIOGEME(d, formulas, parameters=Parameters(), number_of_threads=c['threads'])
        B.modelName = 'c09h'
        B.generate_html = False
        B.generate_pickle = False
        B.save_iterations = False
        B.bootstrap_samples = c['bootstrap_samples']
        state['B'] = B
        return True

    res['build'] = part(build)
    if not res['build']['ok']:
        return res
    B = state['B']
    res['ll_before'] = part(lambda: ratio(B.calculate_likelihood([b0], scaled=False)))
    calls = {'n': 0}
    original = B.optimize

    def optimize(*a, **k):
        calls['n'] += 1
        if c.get('fault_at') and calls['n'] == c['fault_at']:
            raise InjectedFault(f"fault injected in call {calls['n']} of optimize")
        return original(*a, **k)

    B.optimize = optimize

    def estimate():
        try:
            r_est = B.estimate(run_bootstrap=True)
            state['results'] = [int(r_est.data.sampleSize), int(r_est.data.numberOfObservations)]
            return 'completed'
        except InjectedFault:
            return 'interrupted'
        finally:
            B.optimize = original

    res['estimate'] = part(estimate)
    res['optimize_calls'] = calls['n']
    res['results_sizes'] = state.get('results')
    res['ll_after'] = part(lambda: ratio(B.calculate_likelihood([b0], scaled=False)))
    res['ll_after_scaled'] = part(lambda: ratio(B.calculate_likelihood([b0], scaled=True)))
    res['lld_after'] = part(lambda: ratio(
        B.calculate_likelihood_and_derivatives([b0], scaled=False, hessian=False, bhhh=False).function))

    def simulate():
        out = B.simulate({'b': b0})
        return {'index': [scaled_int(v, scale) for v in out.index.tolist()],
                'traj': [ratio(v) for v in out['traj'].tolist()],
                'loglike': [ratio(v) for v in out['loglike'].tolist()]}

    res['sim_after'] = part(simulate)
    res['ll_after_sim'] = part(lambda: ratio(B.calculate_likelihood([b0], scaled=False)))
    res['sample_size'] = part(lambda: int(d.get_sample_size()))
    res['map'] = part(lambda: [[scaled_int(k, scale), int(a), int(b_)] for k, (a, b_) in
                               zip(d.individualMap.index.tolist(), d.individualMap.values.tolist())])
    return res


def main():
    cases = json.load(sys.stdin)
    out = []
    for c in cases:
        try:
            out.append(run_history(c) if c.get('history') == 'bootstrap' else
                       run_steps(c) if c.get('history') == 'steps' else
                       run_object(c) if c.get('history') == 'object' else run_case(c))
        except Exception as e:  # noqa
            out.append({'runner': {'ok': False, 'exc': type(e).__name__, 'msg': str(e)[:300]}})
    print('@@' + json.dumps(out))


main()
