"""Implementation side of stream C14/history: run histories of the REAL output writers in scratch
directories populated with decoys; report the directory snapshot after every operation.

payload: list of cases {model, dbname, decoys:[names], synth:{spec}, ops:[{op,...}]}
result : list of {init: snapshot, steps: [{op, ret, exc, snap}], fatal}
Every pre-existing file is "aged" (mtime set to T0) before each operation, so a rewrite with
identical content is still visible in the next snapshot."""
import json
import logging
import os
import pickle
import shutil
import sys
import tempfile
import warnings

warnings.filterwarnings('ignore')
logging.disable(logging.CRITICAL)

from c14_fake import make_raw, make_results, tiny_logit, tiny_panel, snapshot, exc_info, f2h, time_limit  # noqa: E402

T0 = 10 ** 18  # 2001-09-09, in ns
TIMEOUTS = [0]


def age(path='.'):
    for f in os.listdir(path):
        try:
            os.utime(os.path.join(path, f), ns=(T0, T0))
        except OSError:
            pass


DECOY_TOML = '# decoy parameter file\n[MultiThreading]\nnumber_of_threads = 1\n'


def write_decoy(name, case):
    model = case['model']
    if name.endswith('.pickle') and (name == model + '.pickle' or name.startswith(model + '~')):
        spec = dict(case['synth'])
        spec['notes'] = 'decoy ' + name
        with open(name, 'wb') as f:
            pickle.dump(make_raw(spec), f)
    elif name.endswith('.toml'):
        with open(name, 'w') as f:
            f.write(DECOY_TOML)
    else:
        with open(name, 'w') as f:
            f.write('decoy ' + name + '\n')


def betas_of(r):
    return {'betas': [f2h(v) for v in r.data.betaValues], 'names': list(r.data.betaNames),
            'loglike': f2h(r.data.logLike)}


def run_case(case):
    import biogeme.biogeme as bio
    from biogeme.parameters import Parameters
    from biogeme.tools.files import create_backup
    st = {'rr': None, 'bio': None, 'db': None, 'last': None}

    def rr():
        if st['rr'] is None:
            st['rr'] = make_results(case['synth'])
        return st['rr']

    def the_bio():
        if st['bio'] is None:
            d, ll = tiny_logit(case['dbname'])
            st['db'] = d
            b = bio.BIOGEME(d, ll, number_of_threads=1)
            b.modelName = case['model']
            st['bio'] = b
        return st['bio']

    def do(op):
        k = op['op']
        if k == 'write_html':
            rr().write_html(op.get('only_robust', True))
            return rr().data.htmlFileName
        if k == 'write_latex':
            rr().write_latex()
            return rr().data.latexFileName
        if k == 'write_f12':
            rr().write_f12(op.get('robust', True))
            return rr().data.F12FileName
        if k == 'write_pickle':
            return rr().write_pickle()
        if k == 'construct':
            the_bio()
            return None
        if k == 'estimate':
            r = the_bio().estimate()
            st['last'] = r
            return {'html': r.data.htmlFileName, 'pickle': r.data.pickleFileName, **betas_of(r)}
        if k == 'recycle':
            r = the_bio().estimate(recycle=True)
            return betas_of(r)
        if k == 'validate':
            b = the_bio()
            r = st['last'] if st['last'] is not None else b.estimate(recycle=True)
            vd = st['db'].split(slices=2)
            out = b.validate(r, vd)
            return len(out)
        if k == 'params_dump':
            p = Parameters()
            p.set_value('number_of_draws', int(op.get('draws', 123)))
            p.dump_file(op['file'])
            return op['file']
        if k == 'dump_on_file':
            if st['db'] is None:
                st['db'], _ = tiny_logit(case['dbname'])
            return st['db'].dump_on_file()
        if k == 'flat_panel':
            d = tiny_panel(case['dbname'] + 'p')
            d.generate_flat_panel_dataframe(save_on_file=True)
            return None
        if k == 'backup':
            return create_backup(op['file'], op.get('rename', True))
        raise ValueError('unknown op ' + k)

    out = {'steps': [], 'fatal': None}
    for n in case['decoys']:
        write_decoy(n, case)
    age()
    out['init'] = snapshot()
    for op in case['ops']:
        step = {'op': op, 'ret': None, 'exc': None}
        try:
            with time_limit(30):
                step['ret'] = do(op)
        except Exception as e:  # noqa
            step['exc'] = exc_info(e)
            if isinstance(e, TimeoutError):
                TIMEOUTS[0] += 1
        step['snap'] = snapshot()
        if TIMEOUTS[0] >= 3:
            out['steps'].append(step)
            break
        age()
        out['steps'].append(step)
    return out


def main():
    cases = json.load(sys.stdin)
    root = os.getcwd()
    res = []
    for c in cases:
        if TIMEOUTS[0] >= 3:
            res.append({'fatal': {'exc': 'TimeoutError', 'msg': 'skipped after 3 timeouts'}, 'steps': [], 'init': {}})
            continue
        d = tempfile.mkdtemp(dir=root)
        os.chdir(d)
        try:
            res.append(run_case(c))
        except Exception as e:  # noqa
            res.append({'fatal': exc_info(e), 'steps': [], 'init': {}})
        finally:
            os.chdir(root)
            shutil.rmtree(d, ignore_errors=True)
    print('@@' + json.dumps(res, default=str))


main()
