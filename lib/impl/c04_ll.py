"""Implementation side of the C04 streams (ll_vs_simulate, partition_observed, threads_resolution, stress).

Every case builds small tables of dyadic cells, a logit log likelihood with 1-3 parameters and optionally a
weight formula, and reports -- as exact rationals (float.as_integer_ratio) -- what BIOGEME.simulate,
calculate_likelihood, calculate_likelihood_and_derivatives and the one-expression evaluator
(expressions/calculator.py, disaggregated) return.  The thread count is always given explicitly.

The engine keeps re-raising the first exception of a process: after a case in which anything raised, the
remaining cases are returned as None (ctx.impl_cases re-runs them in a fresh process).
Exceptions are data, not crashes."""
import json
import logging
import math
import multiprocessing as mp
import sys

import numpy as np
import pandas as pd

logging.disable(logging.CRITICAL)

from biogeme.database import Database  # noqa: E402
import biogeme.biogeme as bio  # noqa: E402
from biogeme.parameters import Parameters  # noqa: E402
from biogeme.expressions import Variable, Beta, Numeric, PanelLikelihoodTrajectory, log  # noqa: E402
from biogeme.models import loglogit, logit  # noqa: E402

DIRTY = [False]


def ratio(v):
    v = float(v)
    if math.isnan(v):
        return 'nan'
    if math.isinf(v):
        return 'inf' if v > 0 else '-inf'
    n, d = v.as_integer_ratio()
    return [n, d]


def ratios(a):
    return [ratio(v) for v in np.asarray(a, dtype=np.float64).ravel().tolist()]


def part(fun):
    try:
        return {'ok': True, 'v': fun()}
    except BaseException as e:  # noqa
        if isinstance(e, (KeyboardInterrupt, SystemExit)):
            raise
        DIRTY[0] = True
        return {'ok': False, 'exc': type(e).__name__, 'msg': str(e)[:300]}


def frame(c, rows):
    """the table made of rows `rows` of the case's table; column rid = position of the row in the case's table"""
    s = float(c['scale'])
    df = pd.DataFrame({k: np.array([v[r] / s for r in rows], dtype=np.float64) for k, v in c['cols'].items()})
    df['rid'] = np.array(rows, dtype=np.float64)
    return df


def formulas(c):
    """fresh expression objects for every BIOGEME object"""
    s = float(c['scale'])
    b = {k: Beta(k, v / s, None, None, 0) for k, v in c['betas'].items()}
    x1, x2, x3 = Variable('x1'), Variable('x2'), Variable('x3')
    m = c['model']
    if m == 1:
        V = {1: b['b1'] * x1, 2: Numeric(0) * x2}
    elif m == 2:
        V = {1: b['b1'] * x1, 2: b['b2'] * x2 + b['b1']}
    else:
        V = {1: b['b1'] * x1, 2: b['b2'] * x2, 3: b['b3'] + b['b1'] * x3}
    if c.get('panel'):
        # panel data: one observation of the sample = one individual (the product over its rows)
        ll = log(PanelLikelihoodTrajectory(logit(V, None, Variable('ch'))))
    else:
        ll = loglogit(V, None, Variable('ch'))
    llkey, wkey = c.get('llkey', 'log_like'), c.get('wkey', 'weight')
    fm = {llkey: ll}
    if c['weight'] == 'w':
        fm[wkey] = Variable('w')
    elif c['weight'] == 'wexpr':
        fm[wkey] = Variable('w') * 0.5 + Variable('w2')
    elif c['weight'] == 'const':          # a bare numeric constant
        fm[wkey] = Numeric(c['wconst'] / s)
    elif c['weight'] == 'constexpr':      # a constant expression
        fm[wkey] = Numeric(c['wconst'] / s) * Numeric(1) + Numeric(0)
    elif c['weight'] == 'constcol':       # a constant times a column
        fm[wkey] = Numeric(c['wconst'] / s) * Variable('w')
    return fm


def beta_values(c):
    s = float(c['scale'])
    return {k: v / s for k, v in c['betas'].items()}


def database(c, rows, name='c04'):
    d = Database(name, frame(c, rows))
    if c.get('panel'):
        d.panel('pid')
    return d


def units(c, rows):
    """observations of the sample: the rows (positions in the case's table), or, for panel data, the individuals
    (rank of their identifier in the case's table) -- None if an individual is not there with all its rows"""
    rows = [int(r) for r in rows]
    if not c.get('panel'):
        return rows
    pid = c['cols']['pid']
    ids = sorted(set(pid))
    present = sorted(set(pid[r] for r in rows))
    for i in present:
        if sorted(r for r in rows if pid[r] == i) != [r for r in range(len(pid)) if pid[r] == i]:
            return None
    return [ids.index(i) for i in present]


def make(c, rows, T, via='kw', d=None, **kw):
    if d is None:
        d = database(c, rows)
    P = Parameters()
    if via == 'params':
        P.set_value(name='number_of_threads', value=T, section='MultiThreading')
        B = bio.BIOGEME(d, formulas(c), parameters=P, **kw)
    else:
        B = bio.BIOGEME(d, formulas(c), parameters=P, number_of_threads=T, **kw)
    B.generate_html = False
    B.generate_pickle = False
    B.save_iterations = False
    return B


def derivs(r):
    return {'f': ratio(r.function), 'g': ratios(r.gradient), 'h': ratios(r.hessian), 'b': ratios(r.bhhh)}


def evaluate(c, rows, T, via='kw', full=True, d=None):
    """everything one BIOGEME object reports on the table made of `rows` of the case's table, or on the given
    Database `d` (a part made by the library): its rows are then read from the column rid"""
    out = {'T': T, 'via': via}
    if d is None:
        out['rows'] = units(c, rows)
    pb = part(lambda: make(c, rows, T, via, d=d))
    if not pb['ok']:
        out['build'] = pb
        if d is not None:
            out['rows'] = part(lambda: units(c, d.data['rid'].tolist())).get('v')
        return out
    B = pb['v']
    if d is not None:
        pr = part(lambda: [int(v) for v in B.database.data['rid'].tolist()])
        out['raw_rows'] = pr.get('v')
        out['rows'] = units(c, pr['v']) if pr['ok'] else None
        if out['rows'] is None:
            out['build'] = {'ok': False, 'exc': 'rows', 'msg': 'the part does not hold whole observations / rid unreadable'}
            return out
    bv = beta_values(c)
    out['free'] = list(B.id_manager.free_betas.names)
    x = [bv[k] for k in out['free']]
    out['Tres'] = part(lambda: int(B.number_of_threads))
    out['N'] = part(lambda: int(B.database.get_sample_size()))
    out['f0'] = part(lambda: ratio(B.calculate_likelihood(x, scaled=False)))

    def sim():
        s = B.simulate(bv)
        return {k: ratios(s[k]) for k in s.columns}

    out['sim'] = part(sim)
    out['f1'] = part(lambda: ratio(B.calculate_likelihood(x, scaled=False)))
    out['fs'] = part(lambda: ratio(B.calculate_likelihood(x, scaled=True)))
    if full:
        out['d'] = part(lambda: derivs(B.calculate_likelihood_and_derivatives(x, scaled=False, hessian=True, bhhh=True)))
        out['ds'] = part(lambda: derivs(B.calculate_likelihood_and_derivatives(x, scaled=True, hessian=True, bhhh=True)))

        def fg():
            r = B.calculate_likelihood_and_derivatives(x, scaled=False, hessian=False, bhhh=False)
            return {'f': ratio(r.function), 'g': ratios(r.gradient)}

        out['fg'] = part(fg)
        out['f2'] = part(lambda: ratio(B.calculate_likelihood(x, scaled=False)))
    return out


def per_row(c, rows):
    """per-observation values of the log likelihood and of its derivatives: one-expression evaluator,
    disaggregated (expressions/calculator.py)"""
    def go():
        d = database(c, rows, 'c04r')
        ll = formulas(c)[c.get('llkey', 'log_like')]
        o = ll.get_value_and_derivatives(betas=beta_values(c), database=d, gradient=True, hessian=True, bhhh=True,
                                         aggregation=False, prepare_ids=True)
        n = len(units(c, rows))
        # the same evaluator, aggregated (always 4 threads: evaluateExpressions.cc)
        a = formulas(c)[c.get('llkey', 'log_like')].get_value_and_derivatives(betas=beta_values(c), database=database(c, rows, 'c04a'),
                                                              gradient=True, hessian=True, bhhh=True, aggregation=True, prepare_ids=True)
        return {'f': ratios(o.functions), 'g': [ratios(o.gradients[i]) for i in range(n)],
                'h': [ratios(o.hessians[i]) for i in range(n)], 'b': [ratios(o.bhhhs[i]) for i in range(n)],
                'agg': derivs(a)}
    return part(go)


def negative(c, rows, T):
    """negative_likelihood.py: the function handed to the optimiser"""
    def go():
        from biogeme.negative_likelihood import NegativeLikelihood
        B = make(c, rows, T)
        bv = beta_values(c)
        x = np.array([bv[k] for k in B.id_manager.free_betas.names])
        nl = NegativeLikelihood(dimension=len(x), like=B.calculate_likelihood,
                                like_derivatives=B.calculate_likelihood_and_derivatives)
        nl.set_variables(x)
        f = nl.f()
        fg = nl.f_g()
        fgh = nl.f_g_h()
        return {'f': ratio(f), 'fg_f': ratio(fg.function), 'fg_g': ratios(fg.gradient),
                'fgh_f': ratio(fgh.function), 'fgh_g': ratios(fgh.gradient), 'fgh_h': ratios(fgh.hessian)}
    return part(go)


def spec_positions(spec):
    if 'range' in spec:
        return range(*spec['range'])
    return list(spec['list'])


def lib_ops(c, allrows):
    """parts made by the library itself: Database.extract_rows, Database.split, Database.mdcev_row_split"""
    out = []
    for op in c.get('lib', []):
        r = {'op': op['op']}
        try:
            if op['op'] == 'extract':
                parts = []
                for spec, T in zip(op['parts'], op['Ts']):
                    pd_ = part(lambda: database(c, allrows).extract_rows(spec_positions(spec)))
                    parts.append(evaluate(c, None, T, d=pd_['v']) if pd_['ok'] else {'T': T, 'build': pd_, 'rows': None})
                r['parts'] = parts
            elif op['op'] == 'rowsplit':
                def go():
                    d = database(c, allrows)
                    return d.mdcev_row_split() if op.get('range') is None else d.mdcev_row_split(spec_positions(op['range']))
                pl = part(go)
                r['parts'] = ([evaluate(c, None, T, d=d_, full=True) for d_, T in zip(pl['v'], op['Ts'])] if pl['ok']
                              else [{'T': None, 'build': pl, 'rows': None}])
            elif op['op'] == 'split':
                def go():
                    np.random.seed(op['seed'])
                    return database(c, allrows).split(op['slices'], groups=op.get('groups'))
                pl = part(go)
                if not pl['ok']:
                    r['error'] = pl
                else:
                    r['pairs'] = []
                    for ev, T in zip(pl['v'], op['Ts']):
                        def db_of(df, nm):
                            d_ = Database(nm, df)
                            if c.get('panel'):
                                d_.panel('pid')
                            return d_
                        pv = part(lambda: db_of(ev.validation, 'val'))
                        pe = part(lambda: db_of(ev.estimation, 'est'))
                        r['pairs'].append({
                            'validation': evaluate(c, None, T, d=pv['v']) if pv['ok'] else {'T': T, 'build': pv, 'rows': None},
                            'estimation': evaluate(c, None, T, d=pe['v'], full=False) if pe['ok'] else {'T': T, 'build': pe, 'rows': None}})
        except Exception as e:  # noqa
            DIRTY[0] = True
            r['error'] = {'ok': False, 'exc': type(e).__name__, 'msg': str(e)[:300]}
        out.append(r)
    return out


def case_table(c):
    allrows = list(range(len(c['cols']['x1'])))
    n = len(units(c, allrows))
    res = {'cpu': mp.cpu_count(), 'n': n}
    res['rows'] = per_row(c, allrows)
    res['evals'] = [evaluate(c, allrows, T, via) for T, via in c['threads']]
    res['perms'] = [evaluate(c, p['perm'], p['T']) for p in c.get('perms', [])]
    res['splits'] = [[evaluate(c, prt, T) for prt, T in zip(s['parts'], s['Ts'])] for s in c.get('splits', [])]
    if c.get('negative'):
        res['negative'] = negative(c, allrows, c['negative'])
    res['lib'] = lib_ops(c, allrows)
    return res


def case_rethread(c):
    n = len(c['cols']['x1'])
    rows = list(range(n))
    bv = beta_values(c)
    out = []
    for old, new in c['pairs']:
        r = {'old': old, 'new': new}
        pb = part(lambda: make(c, rows, old))
        if not pb['ok']:
            r['build'] = pb
            out.append(r)
            continue
        B = pb['v']
        x = [bv[k] for k in B.id_manager.free_betas.names]
        r['free'] = list(B.id_manager.free_betas.names)
        r['f0'] = part(lambda: ratio(B.calculate_likelihood(x, scaled=False)))

        def setter():
            B.number_of_threads = new
            return int(B.number_of_threads)

        r['set'] = part(setter)
        sys.stdout.flush()

        def sim():
            s = B.simulate(bv)
            return {k: ratios(s[k]) for k in s.columns}

        r['sim'] = part(sim)
        r['f1'] = part(lambda: ratio(B.calculate_likelihood(x, scaled=False)))
        r['fs'] = part(lambda: ratio(B.calculate_likelihood(x, scaled=True)))
        r['d'] = part(lambda: derivs(B.calculate_likelihood_and_derivatives(x, scaled=False, hessian=True, bhhh=True)))
        r['N'] = part(lambda: int(B.database.get_sample_size()))
        out.append(r)
    return {'n': n, 'rows': per_row(c, rows), 'pairs': out}


class InjectedFault(Exception):
    pass


def case_bootstrap(c):
    rows = list(range(len(c['cols']['x1'])))
    n = len(units(c, rows))
    bv = beta_values(c)
    res = {'n': n, 'rows': per_row(c, rows)}
    pb = part(lambda: make(c, rows, c['T'], bootstrap_samples=c['samples'], seed=c['seed']))
    if not pb['ok']:
        res['build'] = pb
        return res
    B = pb['v']
    B.modelName = 'c04boot'
    x = [bv[k] for k in B.id_manager.free_betas.names]
    res['free'] = list(B.id_manager.free_betas.names)

    def sim():
        s = B.simulate(bv)
        return {k: ratios(s[k]) for k in s.columns}

    res['sim_before'] = part(sim)
    res['f_before'] = part(lambda: ratio(B.calculate_likelihood(x, scaled=False)))

    def est():
        k = c.get('fault_at')
        if k:
            # harness-side fault: the k-th call of optimize (k >= 2: a bootstrap re-estimation) raises; the
            # caller catches the exception and keeps using the object
            original, calls = B.optimize, [0]

            def failing(starting_values=None):
                calls[0] += 1
                if calls[0] == k:
                    raise InjectedFault('fault injected in optimize call %d' % k)
                return original(starting_values)

            B.optimize = failing
            try:
                B.estimate(run_bootstrap=True)
                return {'interrupted': False, 'calls': calls[0]}
            except InjectedFault:
                return {'interrupted': True, 'calls': calls[0]}
            finally:
                B.optimize = original
        r = B.estimate(run_bootstrap=True)
        boot = B.bootstrap_results
        return {'nboot': 0 if boot is None else int(len(boot)),
                'betas': {k: ratio(v) for k, v in r.get_beta_values().items()}}

    res['estimate'] = part(est)
    res['f_after'] = part(lambda: ratio(B.calculate_likelihood(x, scaled=False)))
    res['fs_after'] = part(lambda: ratio(B.calculate_likelihood(x, scaled=True)))
    res['d_after'] = part(lambda: derivs(B.calculate_likelihood_and_derivatives(x, scaled=False, hessian=True, bhhh=True)))
    res['sim_after'] = part(sim)
    res['N'] = part(lambda: int(B.database.get_sample_size()))
    return res


def case_threads(c):
    """thread-count resolution: what the getter returns for parameter value p, by three routes"""
    rows = list(range(len(c['cols']['x1'])))
    out = []
    for p, route in c['requests']:
        def go():
            if route == 'setter':
                B = make(c, rows, 1)
                B.number_of_threads = p
            else:
                B = make(c, rows, p, via=route)
            return {'got': int(B.number_of_threads), 'param': int(B.biogeme_parameters.get_value('number_of_threads'))}
        out.append(part(go))
    return {'cpu': mp.cpu_count(), 'requests': out}


def case_stress(c):
    """repeated evaluations on one large table: every repetition must return the same doubles"""
    rng = np.random.default_rng(c['seed'])
    n = c['n']
    s = 16
    cc = dict(c)
    cc['scale'] = s
    cc['cols'] = {'x1': rng.integers(-64, 65, n).tolist(), 'x2': rng.integers(-64, 65, n).tolist(),
                  'x3': rng.integers(-64, 65, n).tolist(), 'ch': (rng.integers(1, c['model'] + 1 if c['model'] == 3 else 3, n) * s).tolist(),
                  'w': rng.integers(1, 64, n).tolist(), 'w2': rng.integers(1, 64, n).tolist()}
    rows = list(range(n))
    bv = beta_values(cc)
    out = {'n': n, 'runs': []}
    for T in c['threads']:
        r = {'T': T}
        pb = part(lambda: make(cc, rows, T))
        if not pb['ok']:
            r['build'] = pb
            out['runs'].append(r)
            continue
        B = pb['v']
        x = [bv[k] for k in B.id_manager.free_betas.names]

        def go():
            fs, ds = {}, {}
            sim0 = None
            for i in range(c['reps']):
                f = float(B.calculate_likelihood(x, scaled=False))
                fs[f.hex()] = fs.get(f.hex(), 0) + 1
                if i % 4 == 0:
                    d = B.calculate_likelihood_and_derivatives(x, scaled=False, hessian=True, bhhh=True)
                    key = json.dumps(derivs(d))
                    ds[key] = ds.get(key, 0) + 1
                if i % 25 == 0:
                    sm = B.simulate(bv)
                    key = {k: ratios(sm[k]) for k in sm.columns}
                    if sim0 is None:
                        sim0 = key
                    elif key != sim0:
                        fs['simulate-changed@%d' % i] = 1
            return {'f': {k: v for k, v in fs.items()}, 'nd': len(ds), 'd': json.loads(next(iter(ds))), 'sim': sim0,
                    'f_ratio': [ratio(float.fromhex(k)) for k in fs if not k.startswith('sim')]}

        r['res'] = part(go)
        out['runs'].append(r)
    return out


def case_history(c):
    """a history of calls on ONE BIOGEME object (plus, optionally, a second object sharing its Parameters).
    Every result is serialised twice: right after its call ('now') and after the whole history ('final'): what an
    earlier call returned must not be changed by later calls."""
    rows = list(range(len(c['cols']['x1'])))
    n = len(units(c, rows))
    s = float(c['scale'])
    points = [{k: v / s for k, v in pt.items()} for pt in c['points']]
    res = {'n': n, 'steps': [], 'points': []}
    # per-observation values at every point of the history, from FRESH objects
    for pt in points:
        def at_point(pt=pt):
            F_ = make(c, rows, 1)
            sm = F_.simulate(pt)
            ll = formulas(c)[c.get('llkey', 'log_like')]
            o = ll.get_value_and_derivatives(betas=pt, database=database(c, rows, 'c04h'), gradient=True, hessian=True, bhhh=True,
                                             aggregation=False, prepare_ids=True)
            return {'sim': {k: ratios(sm[k]) for k in sm.columns}, 'f': ratios(o.functions),
                    'g': [ratios(o.gradients[i]) for i in range(n)], 'h': [ratios(o.hessians[i]) for i in range(n)],
                    'b': [ratios(o.bhhhs[i]) for i in range(n)]}
        res['points'].append(part(at_point))
    shared = Parameters() if c.get('shared') else None

    def build(T):
        if shared is None:
            return make(c, rows, T)
        shared.set_value(name='number_of_threads', value=T, section='MultiThreading')
        B_ = bio.BIOGEME(database(c, rows), formulas(c), parameters=shared)
        B_.generate_html = False
        B_.generate_pickle = False
        B_.save_iterations = False
        return B_

    pb = part(lambda: build(c['T']))
    if not pb['ok']:
        res['build'] = pb
        return res
    B = pb['v']
    other = None
    names = list(B.id_manager.free_betas.names)
    res['free'] = names
    kept = []       # (step index, kind, object)

    def ser(kind, o):
        if kind == 'd':
            return derivs(o)
        if kind == 'sim':
            return {k: ratios(o[k]) for k in o.columns}
        return ratio(o)

    for i, st in enumerate(c['steps']):
        op = st['op']
        sys.stdout.flush()

        def go():
            nonlocal other
            if op == 'derivs':
                x = [points[st['pt']][k] for k in names]
                o = B.calculate_likelihood_and_derivatives(x, scaled=st['scaled'], hessian=st['hessian'], bhhh=st['bhhh'])
                kept.append((i, 'd', o))
                return derivs(o)
            if op == 'like':
                x = [points[st['pt']][k] for k in names]
                return ratio(B.calculate_likelihood(x, scaled=st['scaled']))
            if op == 'sim':
                o = B.simulate(points[st['pt']])
                kept.append((i, 'sim', o))
                return ser('sim', o)
            if op == 'change':
                B.change_init_values({k: v / s for k, v in st['values'].items()})
                return None
            if op == 'random':
                np.random.seed(st['seed'])
                B.set_random_init_values(default_bound=st.get('bound', 100.0))
                return None
            if op == 'threads':
                B.number_of_threads = st['T']
                return int(B.number_of_threads)
            if op == 'other':        # a second object sharing the Parameters object changes the thread count
                if other is None:
                    other = bio.BIOGEME(database(c, rows, 'c04o'), formulas(c), parameters=shared)
                other.number_of_threads = st['T']
                return int(B.number_of_threads)
            if op == 'init':
                f = B.calculate_init_likelihood()
                cur = {k: float(v) for k, v in B.get_beta_values().items()}
                vec = [float(v) for v in B.id_manager.free_betas_values]
                fresh = make(c, rows, 1).simulate(cur)
                own = B.simulate(cur)
                return {'f': ratio(f), 'cur': {k: ratio(v) for k, v in cur.items()}, 'vec': ratios(vec),
                        'sim': {k: ratios(fresh[k]) for k in fresh.columns}, 'own': {k: ratios(own[k]) for k in own.columns},
                        'init': ratio(B.initLogLike)}
            if op == 'estimate':
                cur = {k: float(v) for k, v in B.get_beta_values().items()}
                fresh = make(c, rows, 1).simulate(cur)
                B.modelName = 'c04hist'
                r = B.estimate()
                return {'cur': {k: ratio(v) for k, v in cur.items()}, 'sim': {k: ratios(fresh[k]) for k in fresh.columns},
                        'init': ratio(r.data.initLogLike), 'final': ratio(r.data.logLike),
                        'betas': {k: ratio(v) for k, v in r.get_beta_values().items()}}
            raise ValueError('unknown step ' + op)

        res['steps'].append(part(go))
        if not res['steps'][-1]['ok']:
            break
    res['final'] = {str(i): part(lambda: ser(kind, o)) for i, kind, o in kept}
    return res


KINDS = {'history': case_history, 'table': case_table, 'rethread': case_rethread, 'bootstrap': case_bootstrap, 'threads': case_threads,
         'stress': case_stress}


def main():
    payload = json.load(sys.stdin)
    cases = payload['cases']
    out = []
    for c in cases:
        if DIRTY[0]:
            out.append(None)
            continue
        try:
            out.append(KINDS[c['kind']](c))
        except Exception as e:  # noqa
            DIRTY[0] = True
            out.append({'runner': {'ok': False, 'exc': type(e).__name__, 'msg': str(e)[:300]}})
    print('@@' + json.dumps(out))


main()
