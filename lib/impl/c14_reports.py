"""Implementation side of streams C14/reports and C14/pickle.

payload {mode: 'reports', cases: [{spec, only_robust, robust_std_err}]}
   -> for each case every rendered report (text) + the DataFrame of get_estimated_parameters
payload {mode: 'pickle', cases: [{spec}]}
   -> write_pickle then bioResults(pickle_file=...): attribute-by-attribute comparison (exact), reports
      compared modulo the timestamp line
Synthetic results come from the real RawResults / bioResults constructors (c14_fake.make_results)."""
import hashlib
import json
import logging
import os
import re
import shutil
import sys
import tempfile
import warnings

warnings.filterwarnings('ignore')
logging.disable(logging.CRITICAL)

import numpy as np  # noqa: E402

from c14_fake import make_results, f2h, exc_info, time_limit  # noqa: E402
import biogeme.results as res  # noqa: E402


def table_json(t):
    return {'columns': [str(c) for c in t.columns], 'index': [str(i) for i in t.index],
            'values': [[f2h(x) for x in row] for row in t.to_numpy(dtype=float)]}


def run_reports(case):
    out = {'ok': False}
    try:
        r = make_results(case['spec'])
        orb = bool(case.get('only_robust', True))
        out['betas'] = {'names': list(r.data.betaNames), 'values': [f2h(v) for v in r.data.betaValues]}
        out['table'] = table_json(r.get_estimated_parameters(only_robust=orb))
        out['html'] = r.get_html(only_robust=orb)
        out['latex'] = r.get_latex(only_robust=orb)
        out['f12'] = r.get_f12(robust_std_err=bool(case.get('robust_std_err', True)))
        out['str'] = str(r)
        out['short'] = r.short_summary()
        out['nparam'] = int(r.data.nparam)
        out['ok'] = True
    except Exception as e:  # noqa
        out.update(exc_info(e))
    return out


def canon(x, depth=0):
    if depth > 6:
        return ['deep', repr(x)[:50]]
    if x is None or isinstance(x, (bool, str)):
        return x
    if isinstance(x, (int, np.integer)):
        return ['i', str(int(x)), type(x).__name__]
    if isinstance(x, (float, np.floating)):
        return ['f', f2h(x), type(x).__name__]
    if isinstance(x, np.ndarray):
        return ['nd', str(x.dtype), list(x.shape), hashlib.sha256(np.ascontiguousarray(x).tobytes()).hexdigest()]
    if isinstance(x, dict):
        return ['d', [[canon(k, depth + 1), canon(v, depth + 1)] for k, v in x.items()]]
    if isinstance(x, (list, tuple)):
        return [type(x).__name__, [canon(v, depth + 1) for v in x]]
    if isinstance(x, res.Beta):
        return ['Beta', canon(vars(x), depth + 1)]
    return ['o', type(x).__name__, str(x)]


STAMP = re.compile(r'This file has automatically been generated on [^<\n]*')
F12DATE = re.compile(r'\d{4}-\d{2}-\d{2} \d{2}:\d{2}:\d{2}')


def reports_of(r, with_html=True):
    d = {}
    if with_html:
        d['html'] = STAMP.sub('STAMP', r.get_html())
        d['latex'] = STAMP.sub('STAMP', r.get_latex())
        d['f12'] = F12DATE.sub('DATE', r.get_f12())
        d['table'] = table_json(r.get_estimated_parameters(only_robust=False))
        d['corr'] = table_json(r.get_correlation_results())
        d['general'] = canon({k: v.value for k, v in r.get_general_statistics().items()})
    d['str'] = str(r)
    d['short'] = r.short_summary()
    return d


def run_pickle(case):
    out = {'ok': False}
    try:
        r = make_results(case['spec'])
        has_h = case['spec'].get('hessian', True)
        before_files = set(os.listdir('.'))
        name = r.write_pickle()
        out['name'] = name
        out['fresh'] = name not in before_files
        r2 = res.bioResults(pickle_file=name)
        a, b = canon(vars(r.data)), canon(vars(r2.data))
        ka = {json.dumps(k): v for k, v in a[1]}
        kb = {json.dumps(k): v for k, v in b[1]}
        out['attrs'] = len(ka)
        out['diff'] = sorted(k for k in set(ka) | set(kb) if ka.get(k, 'ABSENT') != kb.get(k, 'ABSENT'))
        ra, rb = reports_of(r, has_h), reports_of(r2, has_h)
        out['report_diff'] = sorted(k for k in ra if ra[k] != rb[k])
        out['threshold_equal'] = r.identification_threshold == r2.identification_threshold
        # a second generation: save the re-loaded object and load it again
        name2 = r2.write_pickle()
        r3 = res.bioResults(pickle_file=name2)
        c = canon(vars(r3.data))
        kc = {json.dumps(k): v for k, v in c[1]}
        kb2 = {json.dumps(k): v for k, v in canon(vars(r2.data))[1]}
        out['diff2'] = sorted(k for k in set(kc) | set(kb2) if kc.get(k, 'ABSENT') != kb2.get(k, 'ABSENT'))
        out['name2'] = name2
        out['ok'] = True
    except Exception as e:  # noqa
        out.update(exc_info(e))
    return out


def main():
    payload = json.load(sys.stdin)
    root = os.getcwd()
    fn = run_reports if payload['mode'] == 'reports' else run_pickle
    resl = []
    timeouts = 0
    for c in payload['cases']:
        if timeouts >= 3:
            resl.append({'ok': False, 'exc': 'TimeoutError', 'msg': 'skipped after 3 timeouts'})
            continue
        d = tempfile.mkdtemp(dir=root)
        os.chdir(d)
        try:
            try:
                with time_limit(30):
                    resl.append(fn(c))
            except TimeoutError as e:
                timeouts += 1
                resl.append({'ok': False, 'exc': 'TimeoutError', 'msg': str(e)})
        finally:
            os.chdir(root)
            shutil.rmtree(d, ignore_errors=True)
    print('@@' + json.dumps(resl))


main()
