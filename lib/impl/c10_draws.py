"""Implementation side of the C10 streams (runs under /venv/bin/python with PYTHONPATH=/repo/src).

payload = {'mode': 'eval' | 'table', 'cases': [...]}; prints '@@' + json list (one result per case; None for the
cases that were not run because the engine raised earlier in this process -- it keeps re-raising its first
exception -- the harness re-runs them in a fresh process).

mode 'eval' : build the formula of the case (bio_build), register the user-defined generators, evaluate it
    through Expression.get_value_c and / or BIOGEME.simulate and report values, the draw-variable numbering,
    the table of draws actually handed to the engine and every array returned by a generator.
mode 'table': Database.set_random_number_generators / generate_draws called directly.

User-defined generators are deterministic: kind 'tag' with tag k returns a[o][r] = (k*2^10 + o*2^5 + r) / 2^12;
the other kinds return the same numbers in an array of another shape.  Numbers are reported as integers
(value * 2^12) when every generator of the case is tagged, else as JSON floats (exact round trip)."""
import json
import logging
import math
import sys
import warnings

warnings.filterwarnings('ignore')
logging.disable(logging.CRITICAL)
sys.path.insert(0, '/verif/lib/impl')

import numpy as np  # noqa: E402
import pandas as pd  # noqa: E402

import biogeme.biogeme as bio  # noqa: E402
import biogeme.database as bdb  # noqa: E402
import biogeme.native_draws as nd  # noqa: E402
from biogeme.database import Database  # noqa: E402
from biogeme.parameters import Parameters  # noqa: E402
from bio_build import build  # noqa: E402
from bio_bridge import expr_to_json  # noqa: E402

SCALE = 4096


def tagged_array(k, n, r):
    return np.array([[(k * 1024 + o * 32 + j) / SCALE for j in range(r)] for o in range(n)], dtype=np.float64).reshape(n, r)


def make_generator(kind, k, calls, label):
    def g(sample_size, number_of_draws):
        n, r = int(sample_size), int(number_of_draws)
        calls.append([label, n, r])
        if kind == 'tag':
            return tagged_array(k, n, r)
        if kind == 'transposed':
            return tagged_array(k, r, n)
        if kind == 'extra_row':
            return tagged_array(k, n + 1, r)
        if kind == 'extra_col':
            return tagged_array(k, n, r + 1)
        if kind == 'vector':
            return tagged_array(k, n, r).reshape(n * r)
        if kind == 'cube':
            return tagged_array(k, n, r).reshape(n, r, 1)
        raise ValueError(kind)
    return g


def num(v):
    v = float(v)
    if math.isnan(v):
        return 'nan'
    if math.isinf(v):
        return 'inf' if v > 0 else 'minf'
    return v


def exc(e):
    return f'{type(e).__name__}: {str(e)[:240]}'


def ints(a):
    """array of tagged numbers -> nested lists of integers (value * 2^12), None if not integral"""
    b = np.asarray(a, dtype=np.float64) * SCALE
    if not np.all(np.isfinite(b)) or not np.all(b == np.round(b)):
        return None
    return np.round(b).astype(np.int64).tolist()


def table_out(a, as_int):
    if a is None:
        return None
    a = np.asarray(a)
    if as_int:
        r = ints(a)
        if r is not None:
            return {'shape': list(a.shape), 'int': r}
    return {'shape': list(a.shape), 'float': [[[num(x) for x in row] for row in plane] for plane in a.tolist()]
            if a.ndim == 3 else a.tolist()}


class Recorder:
    """wraps the native generators (records every array they return) and the calculation engine of BIOGEME
    (records the table handed to setDraws); harness-side instrumentation, /repo is not edited"""

    def __init__(self):
        self.native_calls = []
        self.set_draws = []
        self._saved = dict(nd.native_random_number_generators)
        self._orig_engine = bio.cb.pyBiogeme
        rec = self

        def wrap(name, tup):
            gen = tup.generator

            def w(n, r):
                out = gen(n, r)
                rec.native_calls.append([name, np.array(out, copy=True)])
                return out
            return tup._replace(generator=w)

        for k in list(nd.native_random_number_generators):
            nd.native_random_number_generators[k] = wrap(k, nd.native_random_number_generators[k])
        orig = self._orig_engine

        class Proxy:
            def __init__(self, *a, **kw):
                object.__setattr__(self, '_o', orig(*a, **kw))

            def __getattr__(self, n):
                return getattr(self._o, n)

            def setDraws(self, d):
                rec.set_draws.append(np.array(d, copy=True))
                return self._o.setDraws(d)

        bio.cb.pyBiogeme = Proxy

    def close(self):
        for k, v in self._saved.items():
            nd.native_random_number_generators[k] = v
        bio.cb.pyBiogeme = self._orig_engine


def is_engine_exception(msg):
    return msg.startswith('BiogemeError') and ('.cc' in msg or 'cythonbiogeme' in msg or 'bioExcept' in msg) \
        or msg.startswith('RuntimeError')


def eval_case(c):
    res = {}
    calls = []
    poisoned = False
    rec = Recorder()
    try:
        e = build(c['tree'], c.get('betas') or {})
        res['tree_back'] = expr_to_json(e)
        rows = c.get('rows') or []
        db = Database('c10', pd.DataFrame(rows)) if rows else None
        gens = c.get('gens') or []
        all_tag = all(g[1] == 'tag' for g in gens) and not c.get('native')
        if gens:
            db.set_random_number_generators({g[0]: (make_generator(g[1], g[2], calls, g[0]), f'tagged {g[2]}') for g in gens})
        betas = {k: v['value'] for k, v in (c.get('betas') or {}).items() if not v['fixed']}
        R = c.get('R', 1)
        for path in c.get('paths', ['gv']):
            n0, s0, c0 = len(rec.native_calls), len(rec.set_draws), len(calls)
            out = {}
            try:
                if path == 'gv':
                    if 'np_seed' in c:
                        np.random.seed(c['np_seed'])
                    if db is None:
                        v = e.get_value_c(betas=betas or None, number_of_draws=R, prepare_ids=True)
                        out['values'] = [num(v)]
                    else:
                        v = e.get_value_c(database=db, betas=betas or None, number_of_draws=R, prepare_ids=True)
                        out['values'] = [num(x) for x in np.atleast_1d(v)]
                    out['table'] = table_out(db.theDraws, all_tag) if db is not None and db.theDraws is not None and c.get('want_table') else None
                    if c.get('native'):
                        out['native_calls'] = [[n, a.tolist()] for n, a in rec.native_calls[n0:]]
                    im = None
                    if db is not None:
                        # documented two-step usage: prepare(), then evaluation with prepare_ids=False
                        e.prepare(database=db, number_of_draws=R)
                        im = e.id_manager
                        if not c.get('native'):
                            v2 = e.get_value_c(database=db, betas=betas or None, number_of_draws=R, prepare_ids=False)
                            out['values_prepared'] = [num(x) for x in np.atleast_1d(v2)]
                else:
                    B = bio.BIOGEME(db, {'f': e}, parameters=Parameters(), number_of_draws=R,
                                    number_of_threads=c.get('threads', 1), seed=c.get('seed', 0))
                    B.generate_html = False
                    B.generate_pickle = False
                    sim = B.simulate({k: v['value'] for k, v in (c.get('betas') or {}).items() if not v['fixed']})
                    out['values'] = [num(x) for x in sim['f'].tolist()]
                    out['seed'] = B.seed
                    out['table'] = table_out(rec.set_draws[-1], all_tag) if len(rec.set_draws) > s0 and c.get('want_table') else None
                    out['n_set_draws'] = len(rec.set_draws) - s0
                    im = B.id_manager
                if im is not None:
                    out['names'] = list(im.draws.names)
                    out['ids'] = {n: int(x.drawId) for n, x in im.draws.expressions.items()}
                    out['types'] = dict(im.draw_types())
            except Exception as ex:  # noqa
                out['exc'] = exc(ex)
                if is_engine_exception(out['exc']) or 'cpp' in out['exc'] or '.cc' in out['exc']:
                    poisoned = True
            out['gen_calls'] = calls[c0:]
            if c.get('native') and 'native_calls' not in out:
                out['native_calls'] = [[n, a.tolist()] for n, a in rec.native_calls[n0:]]
            res[path] = out
            if poisoned:
                break
    except Exception as ex:  # noqa
        res['build_exc'] = exc(ex)
    finally:
        rec.close()
    return res, poisoned


def all_draw_objects(e, acc, seen):
    """(name, drawType, drawId) of every bioDraws OBJECT of the formula"""
    if id(e) in seen:
        return acc
    seen.add(id(e))
    if type(e).__name__ == 'bioDraws':
        acc.append([e.name, e.drawType, None if e.drawId is None else int(e.drawId)])
    for ch in e.get_children():
        all_draw_objects(ch, acc, seen)
    return acc


def eval_multi(c):
    """several formulas side by side: one IdManager([f0, f1, ...]) (path 'gv': each formula evaluated by
    get_value_c(prepare_ids=False) with the shared numbering and the shared table) and one
    BIOGEME(db, {'f0': ..., 'f1': ...}).simulate (path 'sim')"""
    from biogeme.expressions import IdManager
    res = {}
    calls = []
    poisoned = False
    rec = Recorder()
    try:
        exprs = [build(t, c.get('betas') or {}) for t in c['trees']]
        res['trees_back'] = [expr_to_json(e) for e in exprs]
        db = Database('c10m', pd.DataFrame(c['rows']))
        gens = c.get('gens') or []
        db.set_random_number_generators({g[0]: (make_generator(g[1], g[2], calls, g[0]), f'tagged {g[2]}') for g in gens})
        betas = {k: v['value'] for k, v in (c.get('betas') or {}).items() if not v['fixed']}
        R = c.get('R', 1)
        for path in c.get('paths', ['gv', 'sim']):
            s0, c0 = len(rec.set_draws), len(calls)
            out = {}
            try:
                if path == 'gv':
                    for e in exprs:
                        e.set_id_manager(None)
                    im = IdManager(exprs, db, R)
                    for e in exprs:
                        e.set_id_manager(im)
                    out['table'] = table_out(db.theDraws, True) if db.theDraws is not None else None
                    out['values'] = [[num(x) for x in np.atleast_1d(
                        e.get_value_c(database=db, betas=betas or None, number_of_draws=R, prepare_ids=False))] for e in exprs]
                else:
                    B = bio.BIOGEME(db, {f'f{i}': e for i, e in enumerate(exprs)}, parameters=Parameters(), number_of_draws=R,
                                    number_of_threads=c.get('threads', 1), seed=c.get('seed', 0))
                    B.generate_html = False
                    B.generate_pickle = False
                    sim = B.simulate(betas)
                    out['values'] = [[num(x) for x in sim[f'f{i}'].tolist()] for i in range(len(exprs))]
                    out['table'] = table_out(rec.set_draws[-1], True) if len(rec.set_draws) > s0 else None
                    im = B.id_manager
                out['names'] = list(im.draws.names)
                out['indices'] = {n: int(i) for n, i in im.draws.indices.items()}
                out['types'] = dict(im.draw_types())
                objs = []
                seen = set()
                for e in exprs:
                    all_draw_objects(e, objs, seen)
                out['objects'] = objs
            except Exception as ex:  # noqa
                out['exc'] = exc(ex)
                if is_engine_exception(out['exc']) or 'cpp' in out['exc'] or '.cc' in out['exc']:
                    poisoned = True
            out['gen_calls'] = calls[c0:]
            res[path] = out
            if poisoned:
                break
    except Exception as ex:  # noqa
        res['build_exc'] = exc(ex)
    finally:
        rec.close()
    return res, poisoned


def table_case(c):
    """direct calls: a sequence of set_random_number_generators, an optional direct write into the user
    dictionary (bypassing the check), then generate_draws(types, names, R)"""
    res = {'native_names': list(bdb.native_random_number_generators)}
    calls = []
    N = c['N']
    db = Database('c10t', pd.DataFrame({'x': [float(i) for i in range(N)]}))
    res['sets'] = []
    for rng in c.get('set_calls', []):
        d = {g[0]: (make_generator(g[1], g[2], calls, g[0]), 'tagged') for g in rng}
        try:
            db.set_random_number_generators(d)
            res['sets'].append({'ok': True, 'keys': list(db.userRandomNumberGenerators)})
        except Exception as ex:  # noqa
            res['sets'].append({'ok': False, 'exc': type(ex).__name__, 'msg': str(ex)[:120],
                                'keys': list(db.userRandomNumberGenerators)})
    for g in c.get('force', []):
        db.userRandomNumberGenerators[g[0]] = nd.RandomNumberGeneratorTuple(make_generator(g[1], g[2], calls, g[0]), 'forced')
    rec = Recorder()
    try:
        try:
            np.random.seed(12345)
            t = db.generate_draws(dict(c['types']), list(c['names']), c['R'])
            res['ok'] = True
            res['same_object'] = t is db.theDraws
            res['table'] = table_out(t, not c.get('force'))
            res['number_of_draws'] = int(db.number_of_draws)
        except Exception as ex:  # noqa
            res['ok'] = False
            res['exc'] = type(ex).__name__
            res['msg'] = str(ex)[:200]
        res['gen_calls'] = calls
        res['native_calls'] = [[n, a.tolist()] for n, a in rec.native_calls]
    finally:
        rec.close()
    return res


def main():
    payload = json.load(sys.stdin)
    out = []
    poisoned = False
    for c in payload['cases']:
        if poisoned:
            out.append(None)
            continue
        try:
            if payload['mode'] == 'table':
                out.append(table_case(c))
            else:
                r, poisoned = eval_multi(c) if 'trees' in c else eval_case(c)
                out.append(r)
        except Exception as ex:  # noqa
            out.append({'harness_exc': exc(ex)})
    print('@@' + json.dumps(out))


main()
