"""Implementation side of stream C03/rename: one formula under several bijective renamings of its
parameters; per-row values by name-dictionary, BIOGEME-level likelihood by position, bounds by name,
dict->list conversion, change_init_values, fixed parameters untouched."""
import json, sys, math, warnings, logging
warnings.filterwarnings('ignore')
sys.path.insert(0, '/verif/lib/impl')
import pandas as pd
from biogeme.database import Database
from biogeme.parameters import Parameters
from biogeme.biogeme import BIOGEME
from bio_build import build
logging.getLogger('biogeme').setLevel(logging.CRITICAL)

payload = json.load(sys.stdin)
out = []


def enc(v):
    v = float(v)
    return v if math.isfinite(v) else ('minf' if v == -math.inf else 'error')


poisoned = False
for c in payload['cases']:
    if poisoned:
        out.append(None)
        continue
    res = {'variants': []}
    for var in c['variants']:
        r = {}
        try:
            e = build(var['tree'], var['betas'])
            db = Database('t', pd.DataFrame(c['rows']))
            free = {k: v['value'] for k, v in var['betas'].items() if not v['fixed']}
            # (a) partial dictionary: only the named parameters are overridden
            try:
                vals = e.get_value_c(database=db, betas=var['override'], prepare_ids=True)
                r['by_dict'] = [enc(v) for v in vals]
            except Exception as ex:  # noqa
                r['by_dict_exc'] = f'{type(ex).__name__}: {str(ex)[:160]}'
                poisoned = True
            # (b) BIOGEME object: positional vector in the library's reported order
            if not poisoned:
                e2 = build(var['tree'], var['betas'])
                p = Parameters()
                p.set_value('number_of_threads', 1, 'MultiThreading')
                p.set_value('generate_html', False, 'Output')
                p.set_value('generate_pickle', False, 'Output')
                p.set_value('save_iterations', True, 'Estimation')
                b = BIOGEME(db, e2, parameters=p)
                names = list(b.id_manager.free_betas.names)
                r['names'] = names
                r['fixed_names'] = list(b.id_manager.fixed_betas.names)
                r['bounds_by_name'] = {n: list(b.get_bounds_on_beta(n)) for n in names}
                r['bounds_list'] = [list(x) for x in b.id_manager.bounds]
                full = dict(free)
                full.update(var['override'])
                try:
                    x = b.beta_values_dict_to_list(full)
                    r['x'] = [float(v) for v in x]
                    r['loglike'] = enc(b.calculate_likelihood(x, scaled=False))
                    sim = b.simulate(full)
                    r['simulate'] = [enc(v) for v in sim.iloc[:, 0].tolist()]
                    # the saved-iteration file pairs names and values
                    import os
                    fn = f'__{b.modelName}.iter'
                    if os.path.exists(fn):
                        os.remove(fn)
                    fgh = b.calculate_likelihood_and_derivatives(x, scaled=False, hessian=False, bhhh=False)
                    if os.path.exists(fn):
                        saved = {}
                        for line in open(fn):
                            k, v = line.rsplit('=', 1)
                            saved[k.strip()] = float(v)
                        r['iter_file'] = saved
                        os.remove(fn)
                except Exception as ex:  # noqa
                    r['biogeme_exc'] = f'{type(ex).__name__}: {str(ex)[:160]}'
                    poisoned = True
                # (c) change_init_values with the partial dictionary: only named free/fixed change
                try:
                    b.change_init_values(var['override'])
                    r['after_change'] = {n: float(v) for n, v in zip(b.id_manager.free_betas.names, b.id_manager.free_betas_values)}
                    r['fixed_after_change'] = {n: float(v) for n, v in zip(b.id_manager.fixed_betas.names, b.id_manager.fixed_betas_values)}
                except Exception as ex:  # noqa
                    r['change_exc'] = f'{type(ex).__name__}: {str(ex)[:160]}'
        except Exception as ex:  # noqa
            r['build_exc'] = f'{type(ex).__name__}: {str(ex)[:300]}'
        res['variants'].append(r)
    # (d) HISTORY on one prepared expression (persistent IdManager): successive partial dictionaries
    if not poisoned and c.get('history'):
        try:
            from biogeme.expressions import IdManager
            var0 = c['variants'][0]
            e3 = build(var0['tree'], var0['betas'])
            db3 = Database('t', pd.DataFrame(c['rows']))
            idm = IdManager([e3], db3, 0)
            e3.set_id_manager(idm)
            hist = []
            for d in c['history']:
                try:
                    vals = e3.get_value_c(database=db3, betas=d, prepare_ids=False)
                    hist.append([enc(v) for v in vals])
                except Exception as ex:  # noqa
                    hist.append(f'{type(ex).__name__}: {str(ex)[:160]}')
                    poisoned = True
                    break
            res['history'] = hist
        except Exception as ex:  # noqa
            res['history_exc'] = f'{type(ex).__name__}: {str(ex)[:200]}'
    out.append(res)
print('@@' + json.dumps(out))
