"""Implementation side of streams C14/toml and C14/boolean.

payload {mode: 'describe'}                       -> the parameter table of default_parameters.py
payload {mode: 'roundtrip', cases: [[{name, section, v}, ...], ...]}
        each case assigns a value to every parameter; the set is dumped with Parameters.dump_file and
        read back by a FRESH Parameters object; every value is returned in an exact tagged form
payload {mode: 'boolean', cases: [str, ...]}     -> parse_boolean on each string
payload {mode: 'history', cases: [{entry, table, files, ops}]} -> histories of read_file / set_value / dump_file on ONE
        Parameters object (plain, or the one held by a BIOGEME object); after every dump / read the file is read by a
        fresh Parameters object
Tagged values: ['b', bool] | ['i', decimal str] | ['f', hex of the IEEE bits] | ['s', str]."""
import json
import signal
import logging
import os
import struct
import sys
import warnings

warnings.filterwarnings('ignore')
logging.disable(logging.CRITICAL)

from biogeme.parameters import Parameters, parse_boolean  # noqa: E402
from biogeme.default_parameters import all_parameters_tuple  # noqa: E402
import biogeme.optimization as opt  # noqa: E402
import biogeme.exceptions as excep  # noqa: E402


def tag(v):
    if isinstance(v, bool):
        return ['b', bool(v)]
    if isinstance(v, int):
        return ['i', str(int(v)), type(v).__module__]
    if isinstance(v, float):
        return ['f', struct.pack('>d', float(v)).hex(), type(v).__module__]
    if isinstance(v, str):
        return ['s', str(v), type(v).__module__]
    return ['?', repr(v), type(v).__name__]


def untag(t):
    k = t[0]
    if k == 'b':
        return bool(t[1])
    if k == 'i':
        return int(t[1])
    if k == 'f':
        return struct.unpack('>d', bytes.fromhex(t[1]))[0]
    if k == 's':
        return t[1]
    raise ValueError(t)


def describe():
    ps = []
    for p in all_parameters_tuple():
        ps.append({'name': p.name, 'section': p.section, 'type': p.type.__name__, 'default': tag(p.value),
                   'checks': [c.__name__ for c in (p.check or ())]})
    return {'params': ps, 'algorithms': ['automatic'] + list(opt.algorithms.keys())}


def roundtrip(case, idx):
    out = {'ok': False}
    try:
        signal.alarm(30)
        p = Parameters()
        for a in case:
            p.set_value(a['name'], untag(a['v']), a['section'])
        out['stage'] = 'set'
        fn = f'params_{idx}.toml'
        p.dump_file(fn)
        out['stage'] = 'dump'
        with open(fn, encoding='utf-8') as f:
            out['text_len'] = len(f.read())
        q = Parameters()
        q.read_file(fn)
        out['stage'] = 'read'
        out['values'] = [tag(q.get_value(a['name'], a['section'])) for a in case]
        out['kept'] = [tag(p.get_value(a['name'], a['section'])) for a in case]
        out['ok'] = True
        os.remove(fn)
        signal.alarm(0)
    except Exception as e:  # noqa
        signal.alarm(0)
        out['exc'] = type(e).__name__
        out['msg'] = str(e)[:300]
    return out


def toml_text(entries):
    """a hand-written parameter file (NOT produced by the library under test): entries = [{name, section, text}]"""
    secs = {}
    for e in entries:
        secs.setdefault(e['section'], []).append(f"{e['name']} = {e['text']}")
    return ''.join(f'[{sec}]\n' + '\n'.join(lines) + '\n\n' for sec, lines in secs.items())


def all_values(p, table):
    return [tag(p.get_value(a['name'], a['section'])) for a in table]


def history(case, idx):
    """a history of read_file / set_value (or BIOGEME property setter) / dump_file on ONE Parameters object"""
    import shutil
    import tempfile
    out = {'ok': False, 'steps': []}
    root = os.getcwd()
    d = tempfile.mkdtemp(dir=root)
    os.chdir(d)
    try:
        signal.alarm(60)
        table = case['table']
        for fn, entries in case.get('files', {}).items():
            with open(fn, 'w', encoding='utf-8') as f:
                f.write(toml_text(entries))
        entry, b = case.get('entry', 'parameters'), None
        if entry == 'parameters':
            p = Parameters()
        else:
            sys.path.insert(0, os.path.dirname(os.path.abspath(__file__)))
            from c14_fake import tiny_logit
            import biogeme.biogeme as bio
            db_, ll = tiny_logit('tiny')
            if entry == 'biogeme_default':
                b = bio.BIOGEME(db_, ll)
            elif entry == 'biogeme_file':
                b = bio.BIOGEME(db_, ll, parameters=case['parameter_file'])
            else:
                b = bio.BIOGEME(db_, ll, parameters=Parameters())
            p = b.biogeme_parameters
        out['initial'] = all_values(p, table)
        for op in case['ops']:
            step = {'op': op['op'], 'exc': None}
            try:
                if op['op'] == 'set':
                    if op.get('via') == 'property' and b is not None:
                        setattr(b, op['name'], untag(op['v']))
                    else:
                        p.set_value(op['name'], untag(op['v']), op['section'])
                elif op['op'] == 'dump':
                    p.dump_file(op['file'])
                elif op['op'] == 'read':
                    p.read_file(op['file'])
                step['kept'] = all_values(p, table)
                if op['op'] in ('dump', 'read'):
                    q = Parameters()
                    q.read_file(op['file'])
                    step['readback'] = all_values(q, table)
            except Exception as e:  # noqa
                step['exc'] = {'exc': type(e).__name__, 'msg': str(e)[:300]}
            out['steps'].append(step)
        out['ok'] = True
        signal.alarm(0)
    except Exception as e:  # noqa
        signal.alarm(0)
        out['exc'] = type(e).__name__
        out['msg'] = str(e)[:300]
    finally:
        os.chdir(root)
        shutil.rmtree(d, ignore_errors=True)
    return out


def boolean(s):
    try:
        r = parse_boolean(s)
        return ['b', r] if isinstance(r, bool) else ['?', repr(r)]
    except excep.BiogemeError:
        return ['e', 'BiogemeError']
    except Exception as e:  # noqa
        return ['e', type(e).__name__]


def _alarm(*a):
    raise TimeoutError('no answer after 30 s')


signal.signal(signal.SIGALRM, _alarm)


def main():
    payload = json.load(sys.stdin)
    mode = payload['mode']
    if mode == 'describe':
        try:
            res = describe()
        except Exception as e:  # noqa
            res = {'exc': type(e).__name__, 'msg': str(e)[:300]}
    elif mode == 'roundtrip':
        res, timeouts = [], 0
        for i, c in enumerate(payload['cases']):
            if timeouts >= 3:
                res.append({'ok': False, 'exc': 'TimeoutError', 'msg': 'skipped after 3 timeouts'})
                continue
            res.append(roundtrip(c, i))
            timeouts += res[-1].get('exc') == 'TimeoutError'
    elif mode == 'history':
        res, timeouts = [], 0
        for i, c in enumerate(payload['cases']):
            if timeouts >= 3:
                res.append({'ok': False, 'exc': 'TimeoutError', 'msg': 'skipped after 3 timeouts', 'steps': []})
                continue
            res.append(history(c, i))
            timeouts += res[-1].get('exc') == 'TimeoutError'
    elif mode == 'boolean':
        res = [boolean(s) for s in payload['cases']]
    else:
        res = {'exc': 'bad mode'}
    print('@@' + json.dumps(res))


main()
