"""Implementation side of streams C14/toml and C14/boolean.

payload {mode: 'describe'}                       -> the parameter table of default_parameters.py
payload {mode: 'roundtrip', cases: [[{name, section, v}, ...], ...]}
        each case assigns a value to every parameter; the set is dumped with Parameters.dump_file and
        read back by a FRESH Parameters object; every value is returned in an exact tagged form
payload {mode: 'boolean', cases: [str, ...]}     -> parse_boolean on each string
Tagged values: ['b', bool] | ['i', decimal str] | ['f', hex of the IEEE bits] | ['s', str]."""
import json
import signal
import logging
import os
import struct
import sys
import warnings

warnings.filterwarnings('ignore')
logging.disable(logging.CRITICAL)

from biogeme.parameters import Parameters, parse_boolean  # noqa: E402
from biogeme.default_parameters import all_parameters_tuple  # noqa: E402
import biogeme.optimization as opt  # noqa: E402
import biogeme.exceptions as excep  # noqa: E402


def tag(v):
    if isinstance(v, bool):
        return ['b', bool(v)]
    if isinstance(v, int):
        return ['i', str(int(v)), type(v).__module__]
    if isinstance(v, float):
        return ['f', struct.pack('>d', float(v)).hex(), type(v).__module__]
    if isinstance(v, str):
        return ['s', str(v), type(v).__module__]
    return ['?', repr(v), type(v).__name__]


def untag(t):
    k = t[0]
    if k == 'b':
        return bool(t[1])
    if k == 'i':
        return int(t[1])
    if k == 'f':
        return struct.unpack('>d', bytes.fromhex(t[1]))[0]
    if k == 's':
        return t[1]
    raise ValueError(t)


def describe():
    ps = []
    for p in all_parameters_tuple():
        ps.append({'name': p.name, 'section': p.section, 'type': p.type.__name__, 'default': tag(p.value),
                   'checks': [c.__name__ for c in (p.check or ())]})
    return {'params': ps, 'algorithms': ['automatic'] + list(opt.algorithms.keys())}


def roundtrip(case, idx):
    out = {'ok': False}
    try:
        signal.alarm(30)
        p = Parameters()
        for a in case:
            p.set_value(a['name'], untag(a['v']), a['section'])
        out['stage'] = 'set'
        fn = f'params_{idx}.toml'
        p.dump_file(fn)
        out['stage'] = 'dump'
        with open(fn, encoding='utf-8') as f:
            out['text_len'] = len(f.read())
        q = Parameters()
        q.read_file(fn)
        out['stage'] = 'read'
        out['values'] = [tag(q.get_value(a['name'], a['section'])) for a in case]
        out['kept'] = [tag(p.get_value(a['name'], a['section'])) for a in case]
        out['ok'] = True
        os.remove(fn)
        signal.alarm(0)
    except Exception as e:  # noqa
        signal.alarm(0)
        out['exc'] = type(e).__name__
        out['msg'] = str(e)[:300]
    return out


def boolean(s):
    try:
        r = parse_boolean(s)
        return ['b', r] if isinstance(r, bool) else ['?', repr(r)]
    except excep.BiogemeError:
        return ['e', 'BiogemeError']
    except Exception as e:  # noqa
        return ['e', type(e).__name__]


def _alarm(*a):
    raise TimeoutError('no answer after 30 s')


signal.signal(signal.SIGALRM, _alarm)


def main():
    payload = json.load(sys.stdin)
    mode = payload['mode']
    if mode == 'describe':
        try:
            res = describe()
        except Exception as e:  # noqa
            res = {'exc': type(e).__name__, 'msg': str(e)[:300]}
    elif mode == 'roundtrip':
        res, timeouts = [], 0
        for i, c in enumerate(payload['cases']):
            if timeouts >= 3:
                res.append({'ok': False, 'exc': 'TimeoutError', 'msg': 'skipped after 3 timeouts'})
                continue
            res.append(roundtrip(c, i))
            timeouts += res[-1].get('exc') == 'TimeoutError'
    elif mode == 'boolean':
        res = [boolean(s) for s in payload['cases']]
    else:
        res = {'exc': 'bad mode'}
    print('@@' + json.dumps(res))


main()
