"""scipy's normal CDF on a dyadic grid (compared with the interval extension PhiI_series, proved to enclose
Phi_def x = 1/2 + RInt npdf 0 x -- rocq/Proofs/PhiP.v, T01f_PhiI_series_correct)."""
import json, sys, math
from scipy.stats import norm
xs = json.load(sys.stdin)['xs']
print('@@' + json.dumps([float(norm.cdf(math.ldexp(m, e))) for m, e in xs]))
