"""scipy's normal CDF on a dyadic grid (cross-check of the TRUSTED interval extension PhiI_series)."""
import json, sys, math
from scipy.stats import norm
xs = json.load(sys.stdin)['xs']
print('@@' + json.dumps([float(norm.cdf(math.ldexp(m, e))) for m, e in xs]))
