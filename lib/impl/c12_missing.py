"""Implementation side of the C12 `missing` stream: evaluate one formula on a ONE-ROW table in which some cells hold the
missing-data code, either with Expression.get_value_c (the code is the expression's default, 99999) or with
BIOGEME(db, formula, missing_data=code).calculate_init_likelihood() (the declared code).  The script stops after the first
engine exception (the engine keeps re-raising it); the harness re-runs the rest in a fresh process."""
import json
import math
import sys
import warnings

warnings.filterwarnings('ignore')
import logging  # noqa: E402

logging.disable(logging.CRITICAL)
sys.path.insert(0, '/verif/lib/impl')
import pandas as pd  # noqa: E402
from biogeme.database import Database  # noqa: E402
from biogeme.exceptions import BiogemeError  # noqa: E402
from c12_faults import build  # noqa: E402  (its main() is guarded below)


def val(v):
    v = float(v)
    if math.isfinite(v):
        return v
    return 'minf' if v == -math.inf else 'error'


def main():
    payload = json.load(sys.stdin)
    out = []
    poisoned = False
    for it in payload['cases']:
        if poisoned:
            out.append(None)
            continue
        try:
            f = build(it['tree'], it['betas'])
            db = Database('c12m', pd.DataFrame([it['row']]))
            betas = {k: v['value'] for k, v in it['betas'].items() if not v['fixed']}
            if it['path'] == 'gvc':
                v = f.get_value_c(database=db, betas=betas, prepare_ids=True)
                r = {'value': val(v[0])}
            else:
                from biogeme.biogeme import BIOGEME
                b = BIOGEME(db, f, missing_data=it['code'])
                r = {'value': val(b.calculate_init_likelihood())}
        except Exception as e:  # noqa
            r = {'exc': type(e).__name__, 'biogeme': isinstance(e, BiogemeError), 'msg': str(e)[:700],
                 'engine': isinstance(e, RuntimeError) and not isinstance(e, BiogemeError)}
            if r['engine']:
                poisoned = True
        out.append(r)
    print('@@' + json.dumps(out))


if __name__ == '__main__':
    main()
