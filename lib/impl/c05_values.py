"""Implementation side of the value streams C05/prob_values and C06/pairs: build choice-model
expressions with the real biogeme builders and evaluate them with the compiled engine
(Expression.get_value_c on a small Database), for every alternative and every row.

case = {'util', 'av', 'betas': {name: value}, 'rows': [{var: value}], 'calls': [call, ...], ...}
call = {'name', 'fn', 'nests'?, 'choice_set'?, 'syntax'?, 'mu'?, 'log_gi'?, 'shift'?, 'bump'?: [alt, h],
        'x'?, 'vals'?, 'tau'?, 'trees'?: bool}
Result per call: {'alts': {alt: [value per row]}} (values: float | 'minf' | 'inf' | 'nan') or {'exc': ...}.
With 'trees' the JSON rose tree of each evaluated expression is returned as well (for lib/values.py)."""
import json
import logging
import math
import os
import sys
import warnings

warnings.filterwarnings('ignore')
sys.path.insert(0, os.path.dirname(os.path.abspath(__file__)))
logging.disable(logging.CRITICAL)

import pandas as pd  # noqa: E402
from biogeme.database import Database  # noqa: E402
from biogeme.expressions import Expression, Numeric  # noqa: E402
from biogeme import models  # noqa: E402
from bio_bridge import expr_to_json  # noqa: E402
import c05_build as B  # noqa: E402


def enc(v):
    v = float(v)
    if math.isnan(v):
        return 'nan'
    if math.isinf(v):
        return 'minf' if v < 0 else 'inf'
    return v


def evaluate(e, db, betas, python=False):
    if not isinstance(e, Expression):
        e = Numeric(float(e))
    if python:
        # the pure-Python evaluator (Expression.get_value): trees without variables; Betas at their init value
        return [enc(e.get_value())]
    if db is None:
        return [enc(e.get_value_c(betas=betas, prepare_ids=True))]
    vals = e.get_value_c(database=db, betas=betas, prepare_ids=True)
    return [enc(v) for v in vals]


def snapshot(d):
    return None if d is None else [(k, id(v), v if not isinstance(v, Expression) else None) for k, v in d.items()]


def same_snapshot(d, snap):
    if d is None or snap is None:
        return d is None and snap is None
    now = [(k, id(v), v if not isinstance(v, Expression) else None) for k, v in d.items()]
    return len(now) == len(snap) and all(a[0] == b[0] and (a[1] == b[1] or (a[2] is not None and a[2] == b[2] and type(a[2]) is type(b[2])))
                                         for a, b in zip(now, snap))


def shifted(util, shift, bump):
    out = {}
    for k, v in util.items():
        w = v
        if shift:
            w = w + shift
        if bump and int(bump[0]) == k:
            w = w + bump[1]
        out[k] = w
    return out


NESTED_FNS = ('nested', 'lognested', 'nested_mev_mu', 'lognested_mev_mu', 'lnG_nested', 'lnG_nested_mu', 'gen')
CNL_FNS = ('cnl', 'logcnl', 'cnlmu', 'logcnlmu', 'lnG_cnl', 'lnG_cnl_mu')


class State:
    """the objects a user keeps between calls: ONE util dict, ONE availability dict, ONE nests object (or tuple),
    ONE ln G_i dict, ONE correction dict; updated in place by the history"""

    def __init__(self, c, call, syntax):
        self.util = B.mk_dict(c.get('util') or [])
        self.av = B.mk_dict(c.get('av'))
        self.lg = B.mk_dict(call.get('log_gi', c.get('log_gi')))
        self.corr = B.mk_dict(call.get('correction', c.get('correction')))
        self.mu = B.mk_pv(call.get('mu', c.get('mu')))
        cc = {'nests': call.get('nests', c.get('nests')), 'choice_set': call.get('choice_set', c.get('choice_set')),
              'names': call.get('names', c.get('names')), 'prev_pos': call.get('prev_pos', c.get('prev_pos'))}
        self.cc, self.syntax = cc, syntax
        self._n = self._c = None

    def nests_n(self):
        if self._n is None:
            self._n = B.nested_args(self.cc, self.syntax)
        return self._n

    def nests_c(self):
        if self._c is None:
            self._c = B.cnl_args(self.cc, self.syntax)
        return self._c

    def apply(self, op):
        k = op['op']
        if k == 'shift_new':        # a NEW utility dict (scenario): every utility plus a constant
            self.util = {a: v + op['c'] for a, v in self.util.items()}
        elif k == 'shift_inplace':  # the SAME dict, every entry replaced
            for a in list(self.util):
                self.util[a] = self.util[a] + op['c']
        elif k == 'bump_inplace':   # what-if scenario on one alternative, same dict
            self.util[int(op['alt'])] = self.util[int(op['alt'])] + op['h']
        elif k == 'bump_new':
            self.util = {a: (v + op['h'] if a == int(op['alt']) else v) for a, v in self.util.items()}
        elif k == 'av_inplace':
            if self.av is not None:
                self.av[int(op['alt'])] = op['value']
        elif k == 'av_new':
            if self.av is not None:
                self.av = {a: (op['value'] if a == int(op['alt']) else v) for a, v in self.av.items()}
        else:
            raise ValueError(f'unknown op {k}')

    def values(self, fn, db, betas, py=False):
        util, av = self.util, self.av
        out = {}
        if fn == 'gen':
            return {'G': evaluate(models.get_mev_generating_for_nested(util, av, self.nests_n()), db, betas, py)}
        if fn.startswith('lnG'):
            d = {'lnG_nested': lambda: models.get_mev_for_nested(util, av, self.nests_n()),
                 'lnG_nested_mu': lambda: models.get_mev_for_nested_mu(util, av, self.nests_n(), self.mu),
                 'lnG_cnl': lambda: models.get_mev_for_cross_nested(util, av, self.nests_c()),
                 'lnG_cnl_mu': lambda: models.get_mev_for_cross_nested_mu(util, av, self.nests_c(), self.mu)}[fn]()
            for k, e in d.items():
                try:
                    out[str(k)] = evaluate(e, db, betas, py)
                except Exception as ex:  # noqa
                    out[str(k)] = {'exc': f'{type(ex).__name__}: {str(ex)[:120]}'}
            return out
        for i in util:
            try:
                if fn in ('logit', 'loglogit'):
                    e = getattr(models, fn)(util, av, i)
                elif fn in ('mev', 'logmev'):
                    e = getattr(models, fn)(util, self.lg, av, i)
                elif fn == 'mev_es':
                    e = models.mev_endogenous_sampling(util, self.lg, av, self.corr, i)
                elif fn == 'logmev_es':
                    e = models.logmev_endogenous_sampling(util, self.lg, av, self.corr, i)
                elif fn in ('nested', 'lognested'):
                    e = getattr(models, fn)(util, av, self.nests_n(), i)
                elif fn in ('nested_mev_mu', 'lognested_mev_mu'):
                    e = getattr(models, fn)(util, av, self.nests_n(), i, self.mu)
                elif fn in ('cnl', 'logcnl'):
                    e = getattr(models, fn)(util, av, self.nests_c(), i)
                elif fn in ('cnlmu', 'logcnlmu'):
                    e = getattr(models, fn)(util, av, self.nests_c(), i, self.mu)
                else:
                    raise ValueError(f'unknown fn {fn}')
                out[str(i)] = evaluate(e, db, betas, py)
            except Exception as ex:  # noqa
                out[str(i)] = {'exc': f'{type(ex).__name__}: {str(ex)[:120]}'}
        return out


def run_history(c, call, db, betas):
    """a history of calls on the same objects; every evaluation is compared (by the harness) with the one obtained
    from freshly built objects brought to the same state without any intermediate call"""
    syntax = call.get('syntax', 'objects')
    fresh_syntax = call.get('fresh_syntax', syntax)
    st = State(c, call, syntax)
    done = []
    evals = []
    for op in call['steps']:
        if op['op'] == 'eval':
            hist = st.values(op['fn'], db, betas)
            fresh_state = State(c, call, fresh_syntax)
            for o in done:
                fresh_state.apply(o)
            fresh = fresh_state.values(op.get('fresh_fn', op['fn']), db, betas)
            avs = {str(k): evaluate(v, db, betas) for k, v in (st.av or {k: 1 for k in st.util}).items()}
            evals.append({'fn': op['fn'], 'after': list(done), 'hist': hist, 'fresh': fresh, 'av': avs})
        else:
            st.apply(op)
            done.append(op)
    return {'evals': evals}


def run_call(c, call, db, betas):
    fn = call['fn']
    if fn == 'history':
        return run_history(c, call, db, betas)
    util = shifted(B.mk_dict(c.get('util') or []), call.get('shift', 0), call.get('bump'))
    av = B.mk_dict(c.get('av'))
    want_trees = call.get('trees')
    res = {'alts': {}}
    if want_trees:
        res['trees'] = {}
    cc = {'nests': call.get('nests', c.get('nests')), 'choice_set': call.get('choice_set', c.get('choice_set')),
          'names': call.get('names', c.get('names')), 'prev_pos': call.get('prev_pos', c.get('prev_pos'))}
    syntax = call.get('syntax', 'legacy')
    mu = B.mk_pv(call.get('mu', c.get('mu')))

    py = bool(call.get('python'))
    cache = {}

    def nests_n():          # ONE nests object for all the alternatives of the call, as a user would write it
        if 'n' not in cache:
            cache['n'] = B.nested_args(cc, syntax)
        return cache['n']

    def nests_c():
        if 'c' not in cache:
            cache['c'] = B.cnl_args(cc, syntax)
        return cache['c']

    lg = B.mk_dict(call.get('log_gi', c.get('log_gi')))
    corr = B.mk_dict(call.get('correction', c.get('correction')))
    snaps = {'util': snapshot(util), 'av': snapshot(av), 'log_gi': snapshot(lg), 'correction': snapshot(corr)}

    def mutated():
        return [nm for nm, d in (('util', util), ('av', av), ('log_gi', lg), ('correction', corr))
                if not same_snapshot(d, snaps[nm])]

    if fn == 'es_dist':
        # whole distribution of the MEV model with endogenous-sampling correction: one call per alternative and
        # per function with the SAME dictionaries; order = list of [function, alternative]
        res = {'P': {}, 'logP': {}, 'order': call['order']}
        if want_trees:
            res['trees'] = {}
        for f, i in call['order']:
            i = int(i)
            try:
                if f == 'P':
                    e = models.mev_endogenous_sampling(util, lg, av, corr, i)
                else:
                    e = models.logmev_endogenous_sampling(util, lg, av, corr, i)
                res[f][str(i)] = evaluate(e, db, betas, py)
                if want_trees and f == 'P':
                    res['trees'][str(i)] = expr_to_json(e)
            except Exception as ex:  # noqa
                res[f][str(i)] = {'exc': f'{type(ex).__name__}: {str(ex)[:120]}'}
        res['mutated'] = mutated()
        return res

    if fn in ('ordered_logit', 'ordered_probit'):
        x = B.mk_expr(call['x'])
        tau = B.mk_pv(call['tau'])
        f = models.ordered_logit if fn == 'ordered_logit' else models.ordered_probit
        d = f(continuous_value=x, list_of_discrete_values=list(call['vals']), tau_parameter=tau)
        for k, e in d.items():
            res['alts'][str(k)] = evaluate(e, db, betas, py)
            if want_trees:
                res['trees'][str(k)] = expr_to_json(e)
        return res
    if fn == 'gen':
        g = models.get_mev_generating_for_nested(util, av, nests_n())
        res['alts']['G'] = evaluate(g, db, betas)
        return res
    if fn in ('lnG_nested', 'lnG_nested_mu', 'lnG_cnl', 'lnG_cnl_mu', 'V', 'AV'):
        if fn == 'lnG_nested':
            d = models.get_mev_for_nested(util, av, nests_n())
        elif fn == 'lnG_nested_mu':
            d = models.get_mev_for_nested_mu(util, av, nests_n(), mu)
        elif fn == 'lnG_cnl':
            d = models.get_mev_for_cross_nested(util, av, nests_c())
        elif fn == 'lnG_cnl_mu':
            d = models.get_mev_for_cross_nested_mu(util, av, nests_c(), mu)
        elif fn == 'V':
            d = util
        else:
            d = av if av is not None else {k: 1 for k in util}
        for k, e in d.items():
            try:
                res['alts'][str(k)] = evaluate(e, db, betas, py)
            except Exception as ex:  # noqa
                res['alts'][str(k)] = {'exc': f'{type(ex).__name__}: {str(ex)[:120]}'}
        return res
    for i in util:
        if fn in ('logit', 'loglogit'):
            e = getattr(models, fn)(util, av, i)
        elif fn in ('mev', 'logmev'):
            e = getattr(models, fn)(util, lg, av, i)
        elif fn in ('nested', 'lognested'):
            e = getattr(models, fn)(util, av, nests_n(), i)
        elif fn in ('nested_mev_mu', 'lognested_mev_mu'):
            e = getattr(models, fn)(util, av, nests_n(), i, mu)
        elif fn in ('cnl', 'logcnl'):
            e = getattr(models, fn)(util, av, nests_c(), i)
        elif fn in ('cnlmu', 'logcnlmu'):
            e = getattr(models, fn)(util, av, nests_c(), i, mu)
        else:
            raise ValueError(f'unknown fn {fn}')
        try:
            res['alts'][str(i)] = evaluate(e, db, betas, py)
        except Exception as ex:  # noqa
            res['alts'][str(i)] = {'exc': f'{type(ex).__name__}: {str(ex)[:120]}'}
        if want_trees:
            res['trees'][str(i)] = expr_to_json(e)
    res['mutated'] = mutated()
    return res


def run_case(c):
    out = {}
    try:
        db = None if (c.get('python') or not c.get('rows')) else Database('t', pd.DataFrame(c['rows']))
    except Exception as ex:  # noqa
        return {'exc': f'database: {type(ex).__name__}: {str(ex)[:200]}'}
    betas = dict(c.get('betas') or {})
    for call in c['calls']:
        try:
            out[call['name']] = run_call(c, call, db, betas)
        except Exception as ex:  # noqa
            out[call['name']] = {'exc': f'{type(ex).__name__}: {str(ex)[:200]}'}
    return out


def main():
    cases = json.load(sys.stdin)
    print('@@' + json.dumps([run_case(c) for c in cases]))


if __name__ == '__main__':
    main()
