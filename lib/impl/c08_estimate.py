"""Implementation side of stream C08/estimated: REAL estimations (binary logit on seeded synthetic data, with
bootstrap and a null likelihood), then the raw outcome stored in results.data is exported as a case of stream
`stats` together with every number the bioResults object reports, so that the same oracle applies.

Input (stdin, JSON): {"seed": int, "n": rows, "k": 2|3, "bootstrap": B}
Prints one line '@@<json>' = {"case": ..., "out": ...} or {"error": ...}.  Runs in a scratch cwd (estimation
writes biogeme.toml / .iter files there).
"""
import json
import os
import sys
import warnings

warnings.filterwarnings('ignore')
sys.path.insert(0, os.path.dirname(os.path.abspath(__file__)))
import numpy as np  # noqa: E402
import c08_stats as S  # noqa: E402


def main():
    p = json.load(sys.stdin)
    try:
        import logging
        logging.disable(logging.CRITICAL)
        import pandas as pd
        import biogeme.database as db
        import biogeme.biogeme as bio
        from biogeme.expressions import Beta, Variable
        from biogeme import models

        rng = np.random.default_rng(p['seed'])
        n = p['n']
        df = pd.DataFrame({'x1': rng.integers(-8, 9, n) / 4.0, 'x2': rng.integers(-8, 9, n) / 4.0,
                           'x3': rng.integers(0, 2, n) * 1.0})
        u = 0.5 + 0.8 * df.x1 - 0.6 * df.x2 + 0.3 * df.x3 + rng.logistic(size=n)
        df['choice'] = (u > 0).astype(int) + 1

        def estimate(k, name, boot):
            d = db.Database('synth', df.copy())
            asc = Beta('asc', 0, None, None, 0)
            b1 = Beta('b1', 0, None, None, 0)
            b2 = Beta('b2', 0, -10, 10, 0)
            b3 = Beta('b3', 0, None, 0.1, 0)       # true value 0.3: the upper bound is (numerically) active
            v = asc + b1 * Variable('x1')
            if k >= 3:
                v = v + b2 * Variable('x2')
            if k >= 4:
                v = v + b3 * Variable('x3')
            lp = models.loglogit({1: 0, 2: v}, None, Variable('choice'))
            b = bio.BIOGEME(d, lp)
            b.modelName = name
            b.generate_html = False
            b.generate_pickle = False
            b.bootstrap_samples = boot
            b.calculate_null_loglikelihood({1: 1, 2: 1})
            return b.estimate(run_bootstrap=boot > 0)

        import contextlib
        import io
        with contextlib.redirect_stderr(io.StringIO()), contextlib.redirect_stdout(io.StringIO()):
            res = estimate(p['k'], 'c08_full', p['bootstrap'])
            small = estimate(2, 'c08_small', 0)

        def case_of(r, with_matrices=True):
            d = r.data
            return {
                'kind': 'estimated', 'names': list(d.betaNames), 'betas': [S.hx(v) for v in d.betaValues],
                'bounds': [[None if b.lb is None else S.hx(float(b.lb)), None if b.ub is None else S.hx(float(b.ub))]
                           for b in d.betas], 'g': [S.hx(v) for v in d.g],
                'L': S.hx(d.logLike), 'L0': S.hx(d.initLogLike), 'Lnull': S.hx(d.nullLogLike),
                'N': int(d.sampleSize), 'nobs': int(d.numberOfObservations),
                'H': S.mat(d.H) if with_matrices else None, 'B': S.mat(d.bhhh) if with_matrices else None,
                'boot': S.mat(d.bootstrap) if (with_matrices and d.bootstrap is not None) else None,
                'monte_carlo': bool(d.monte_carlo), 'draws': int(d.numberOfDraws), 'excluded': int(d.excludedData),
            }

        c = case_of(res)
        c['lr_with'] = case_of(small, with_matrices=False)
        c['alphas'] = [(0.05).hex(), (0.01).hex()]
        out = S.report(res, c, None)
        print('@@' + json.dumps({'case': c, 'out': out}))
    except Exception as e:  # noqa
        import traceback
        print('@@' + json.dumps({'error': S.exc(e), 'trace': traceback.format_exc()[-1500:]}))


main()
