"""Shared helpers of the C14 implementation runners: synthetic bioResults objects built through the
REAL RawResults / bioResults constructors from a fake model namespace (RawResults.__init__ only
reads attributes of the model), a tiny real logit model, directory snapshots."""
import datetime
import hashlib
import math
import os
import struct
import types

import numpy as np
import pandas as pd

import biogeme.results as res
from biogeme.function_output import BiogemeFunctionOutput


def f2h(x):
    """exact exchange format of a double"""
    return struct.pack('>d', float(x)).hex()


def h2f(h):
    return struct.unpack('>d', bytes.fromhex(h))[0]


def make_raw(spec):
    """spec: {model, names, values(hex), lb, ub (hex or None), n, seed, bootstrap (int rows or 0),
    hessian (bool), null (bool), notes}"""
    rng = np.random.default_rng(spec.get('seed', 0))
    names = list(spec['names'])
    values = [h2f(v) for v in spec['values']]
    K = len(names)
    lb = [None if b is None else h2f(b) for b in spec.get('lb', [None] * K)]
    ub = [None if b is None else h2f(b) for b in spec.get('ub', [None] * K)]
    bounds = {nm: (lb[i], ub[i]) for i, nm in enumerate(names)}
    n = int(spec.get('n', 20))
    m = types.SimpleNamespace()
    m.modelName = spec['model']
    m.user_notes = spec.get('notes')
    m.id_manager = types.SimpleNamespace(free_betas=types.SimpleNamespace(names=names))
    m.initLogLike = -30.0 - K
    m.nullLogLike = (-28.0 - K) if spec.get('null', True) else None
    m.get_bounds_on_beta = lambda nm: bounds[nm]
    m.database = types.SimpleNamespace(
        name=spec.get('dbname', 'fakedb'), get_sample_size=lambda: n,
        get_number_of_observations=lambda: n, typesOfDraws={}, excludedData=0)
    m.monte_carlo = False
    m.number_of_draws = 100
    m.drawsProcessingTime = datetime.timedelta(0)
    m.optimizationMessages = {'Algorithm': 'synthetic', 'Relative projected gradient': 1.5e-7,
                              'Number of iterations': 3}
    m.convergence = True
    m.number_of_threads = 1
    m.bootstrap_time = datetime.timedelta(seconds=1)
    if spec.get('hessian', True):
        A = rng.normal(size=(K, K))
        H = -(A @ A.T + K * np.eye(K))
        B = rng.normal(size=(K, K))
        bh = B @ B.T + np.eye(K)
    else:
        H, bh = None, None
    boot = None
    if spec.get('bootstrap', 0):
        boot = np.asarray(values)[None, :] + rng.normal(size=(int(spec['bootstrap']), K))
    f = BiogemeFunctionOutput(function=-20.5 - K, gradient=rng.normal(size=K) * 1e-6, hessian=H, bhhh=bh)
    return res.RawResults(m, list(values), f, bootstrap=boot)


def make_results(spec):
    return res.bioResults(make_raw(spec))


def tiny_logit(dbname='tiny', seed=1, nrows=20, names=('b_1', 'b_2')):
    """a 2-parameter binary logit on nrows rows"""
    import biogeme.database as db
    from biogeme.expressions import Beta, Variable
    from biogeme import models
    rng = np.random.default_rng(seed)
    df = pd.DataFrame({'x1': rng.normal(size=nrows), 'x2': rng.normal(size=nrows),
                       'choice': rng.integers(1, 3, size=nrows)})
    df.loc[0, 'choice'] = 1
    df.loc[1, 'choice'] = 2
    d = db.Database(dbname, df)
    b1 = Beta(names[0], 0, None, None, 0)
    b2 = Beta(names[1], 0, None, None, 0)
    V = {1: b1 * Variable('x1'), 2: b2 * Variable('x2')}
    ll = models.loglogit(V, None, Variable('choice'))
    return d, ll


def tiny_panel(dbname='pan', seed=2):
    import biogeme.database as db
    rng = np.random.default_rng(seed)
    df = pd.DataFrame({'id': [1, 1, 2, 2, 3, 3], 'x1': rng.normal(size=6), 'choice': [1, 2, 1, 2, 1, 1]})
    d = db.Database(dbname, df)
    d.panel('id')
    return d


def snapshot(path='.'):
    """name -> [sha256, mtime_ns, size, kind] of everything directly in the directory"""
    out = {}
    for f in sorted(os.listdir(path)):
        p = os.path.join(path, f)
        st = os.stat(p)
        if os.path.isfile(p):
            with open(p, 'rb') as fh:
                h = hashlib.sha256(fh.read()).hexdigest()
            out[f] = [h, st.st_mtime_ns, st.st_size, 'f']
        else:
            out[f] = ['', st.st_mtime_ns, 0, 'd']
    return out


class time_limit:
    """with time_limit(s): ...  raises TimeoutError in the main thread after s seconds (an implementation that
    loops for ever must yield data, not hang the harness)"""

    def __init__(self, seconds):
        self.seconds = seconds

    def _raise(self, *a):
        raise TimeoutError(f'no answer after {self.seconds} s')

    def __enter__(self):
        import signal
        self.old = signal.signal(signal.SIGALRM, self._raise)
        signal.setitimer(signal.ITIMER_REAL, self.seconds)

    def __exit__(self, *a):
        import signal
        signal.setitimer(signal.ITIMER_REAL, 0)
        signal.signal(signal.SIGALRM, self.old)
        return False


def exc_info(e):
    return {'exc': type(e).__name__, 'msg': str(e)[:300]}
