"""Implementation side of the C15 streams (runs under /venv/bin/python, PYTHONPATH=/repo/src).

Input (stdin, JSON): {"mode": "iter" | "parse" | "crash" | "kill", "sessions": [...]}
Output: one line  @@<json>.

A session builds real BIOGEME objects over a tiny database whose log likelihood is a designed
function of the parameters

    f(b) = - sum_k W_k (b_k - t_k)^2  -  [(b_1 - 0.1) / ((b_1 - 0.1) * c1)]

(the bracketed term is constant for b_1 != 0.1 -- c1 holds powers of two --; at b_1 == 0.1 the engine
returns a finite f and a non-finite gradient), so that the harness dictates improving / worsening / equal / non-finite
evaluations by its choice of x.  Everything is written into a private scratch directory.
"""
import json
import math
import os
import shutil
import signal
import sys
import tempfile
import time
import traceback

import numpy as np
import pandas as pd

import biogeme.biogeme as bio
import biogeme.database as db
from biogeme.expressions import Beta, Variable

try:
    import biogeme.biogeme_logging as blog  # noqa: F401
except Exception:  # pragma: no cover
    pass
import logging

logging.getLogger('biogeme').setLevel(logging.CRITICAL)
logging.disable(logging.CRITICAL)


def fhex(v):
    if v is None:
        return None
    v = float(v)
    if math.isnan(v):
        return 'nan'
    if math.isinf(v):
        return 'inf' if v > 0 else '-inf'
    return v.hex()


def unhex(s):
    if s in ('nan', 'inf', '-inf'):
        return float(s)
    return float.fromhex(s)


def read_bytes(name):
    try:
        with open(name, 'rb') as f:
            return f.read().decode('latin-1')
    except FileNotFoundError:
        return None
    except IsADirectoryError:
        return '<directory>'


class Interrupt(KeyboardInterrupt):
    """what a user's Ctrl-C (or an error inside the optimiser / the resampling) looks like"""


class EngineProxy:
    """Stands in front of the cythonbiogeme object: remembers the log likelihood the engine returned
    (the total over the sample, before any scaling by the caller)."""

    def __init__(self, c):
        self.__dict__['_c'] = c
        self.__dict__['last_f'] = None
        self.__dict__['calls'] = 0

    def __getattr__(self, n):
        return getattr(self.__dict__['_c'], n)

    def __setattr__(self, n, v):
        setattr(self.__dict__['_c'], n, v)

    def calculateLikelihoodAndDerivatives(self, *a, **k):
        r = self.__dict__['_c'].calculateLikelihoodAndDerivatives(*a, **k)
        try:
            self.__dict__['last_f'] = float(r[0])
            self.__dict__['calls'] += 1
        except Exception:  # noqa
            self.__dict__['last_f'] = None
        return r


CUR = {'model': None}  # the name the model currently has (rename operations change it)


def cur_model(sess):
    return CUR['model'] if CUR['model'] is not None else sess['model']


def build(sess, init=None):
    """A new BIOGEME object = what a new process would construct."""
    names = sess['names']  # in the order chosen by the harness (sorted)
    init = init if init is not None else sess['init']
    rows = sess.get('rows', 2)
    cols = {}
    for k in range(len(names)):
        w = sess['weights'][k]
        cols[f'c{k + 1}'] = [float(w[r % len(w)]) for r in range(rows)]
    df = pd.DataFrame(cols)
    d = db.Database('c15', df)
    betas = [Beta(n, unhex(v), None, None, 0) for n, v in zip(names, init)]
    ll = None
    for k, b in enumerate(betas):
        c = Variable(f'c{k + 1}')
        t = unhex(sess['targets'][k])
        term = (b - t) * (b - t) * c
        ll = -term if ll is None else ll - term
    if sess.get('div', True):
        # singular exactly at b_1 == 0.1 (a non-dyadic double no optimiser step lands on)
        d0 = betas[0] - 0.1
        ll = ll - d0 / (d0 * Variable('c1'))
    B = bio.BIOGEME(d, ll)
    B.modelName = cur_model(sess)
    B.save_iterations = bool(sess['save'])
    B.generate_html = False
    B.generate_pickle = False
    B.bootstrap_samples = int(sess.get('bootstrap_samples', 2))
    B.theC = EngineProxy(B.theC)
    return B


def snap(B, sess):
    fn = '__' + cur_model(sess) + '.iter'
    listing = sorted(x for x in os.listdir('.') if x.endswith('.iter') or x.endswith('.tmp'))
    s = {
        'file': read_bytes(fn),
        'tmp': read_bytes(fn + '.tmp'),
        'listing': listing,
        'files': {x: read_bytes(x) for x in listing if x.endswith('.iter')},
    }
    if B is not None:
        s['best'] = fhex(getattr(B, 'bestIteration', None))
        s['susp'] = bool(getattr(B, '_saving_suspended', False))
        s['init'] = [fhex(v) for v in B.id_manager.free_betas_values]
        s['names'] = list(B.id_manager.free_betas.names)
        try:
            s['fname'] = B._save_iterations_file_name()
        except Exception as e:  # noqa
            s['fname'] = f'<{type(e).__name__}>'
    return s


def raw_f(B, fallback):
    p = getattr(B, 'theC', None)
    v = getattr(p, 'last_f', None) if isinstance(p, EngineProxy) else None
    return fhex(v if v is not None else fallback)


def one_eval(B, op):
    x = np.array([unhex(v) for v in op['x']], dtype=float)
    kw = {'scaled': bool(op.get('scaled', False))}
    if op.get('hessian'):
        kw['hessian'] = True
    if op.get('bhhh'):
        kw['bhhh'] = True
    fn = B.calculateLikelihoodAndDerivatives if op.get('alias') else B.calculate_likelihood_and_derivatives
    r = fn(x, **kw)
    g = np.asarray(r.gradient)
    # f = what the engine returned (total); ret = what the caller got (divided by N when scaled)
    return {'f': raw_f(B, r.function), 'ret': fhex(r.function), 'scaled': kw['scaled'],
            'gfin': bool(np.isfinite(np.linalg.norm(g)))}


def instrument(B, sess, inner, op=None):
    """Record every derivative evaluation issued through the public method (by the optimiser, the
    finite-difference hessian, check_derivatives), and every bootstrap sample.  Optionally leave the call
    by an exception right after the k-th evaluation / at the j-th resampling."""
    op = op or {}
    orig = B.calculate_likelihood_and_derivatives
    state = {'boot': False, 'n': 0, 'samples': 0}

    def wrapped(x, *a, **kw):
        r = orig(x, *a, **kw)
        state['n'] += 1
        try:
            g = np.asarray(r.gradient)
            scaled = bool(kw.get('scaled', a[0] if a else False))
            rec = {'x': [fhex(v) for v in x], 'f': raw_f(B, r.function), 'ret': fhex(r.function), 'scaled': scaled,
                   'gfin': bool(np.isfinite(np.linalg.norm(g))), 'boot': state['boot']}
            rec.update(snap(B, sess))
            inner.append(rec)
        except Exception as e:  # noqa
            inner.append({'harness_exc': repr(e)})
        if op.get('interrupt_at') is not None and state['n'] == op['interrupt_at']:
            raise Interrupt()
        return r

    B.calculate_likelihood_and_derivatives = wrapped
    dbase = B.database
    o1 = dbase.sample_with_replacement

    def sample(*a, **k):
        state['boot'] = True
        state['samples'] += 1
        inner.append({'sample': True})
        if op.get('interrupt_sample') is not None and state['samples'] == op['interrupt_sample']:
            raise Interrupt()
        return o1(*a, **k)

    dbase.sample_with_replacement = sample

    def undo():
        try:
            del B.calculate_likelihood_and_derivatives
        except Exception:  # noqa
            pass
        try:
            del dbase.sample_with_replacement
        except Exception:  # noqa
            pass

    return undo


def run_call(B, sess, kind, op=None):
    inner = []
    undo = instrument(B, sess, inner, op)
    res = {'inner': inner}
    try:
        r = None
        if kind == 'estimate':
            r = B.estimate()
        elif kind == 'estimate_boot':
            r = B.estimate(run_bootstrap=True)
        elif kind == 'quick':
            r = B.quick_estimate()
        elif kind == 'findiff':
            B.likelihood_finite_difference_hessian(np.array([unhex(v) for v in op['x']], dtype=float))
        elif kind == 'checkder':
            B.check_derivatives(np.array([unhex(v) for v in op['x']], dtype=float))
        else:
            raise ValueError(kind)
        res['ok'] = True
        if r is not None:
            try:
                bv = r.get_beta_values()
                res['estimates'] = [fhex(bv[n]) for n in B.id_manager.free_betas.names]
            except Exception as e:  # noqa
                res['estimates_exc'] = repr(e)
    except Interrupt:
        res['ok'] = False
        res['interrupted'] = True
        res['exc'] = 'Interrupt'
    except BaseException as e:  # noqa
        res['ok'] = False
        res['exc'] = type(e).__name__
        res['msg'] = str(e)[:300]
    finally:
        undo()
    return res


def run_ops(sess, ops, B=None):
    CUR['model'] = sess['model']
    out = []
    for op in ops:
        kind = op['op']
        rec = {'op': kind}
        try:
            if kind == 'new':
                B = build(sess, op.get('init'))
            elif kind == 'eval':
                try:
                    rec.update(one_eval(B, op))
                    rec['ok'] = True
                except Exception as e:  # noqa
                    rec['ok'] = False
                    rec['exc'] = type(e).__name__
                    rec['msg'] = str(e)[:200]
            elif kind in ('estimate', 'estimate_boot', 'quick', 'findiff', 'checkder'):
                rec.update(run_call(B, sess, kind, op))
            elif kind == 'load':
                try:
                    B._load_saved_iteration()
                    rec['ok'] = True
                except Exception as e:  # noqa
                    rec['ok'] = False
                    rec['exc'] = type(e).__name__
                    rec['msg'] = str(e)[:200]
            elif kind == 'delete_file':
                try:
                    os.remove('__' + cur_model(sess) + '.iter')
                except FileNotFoundError:
                    pass
            elif kind in ('write_file', 'put_file'):
                # the user puts an older check point back / chooses another restart point
                with open('__' + cur_model(sess) + '.iter', 'wb') as f:
                    f.write(op['content'].encode('latin-1'))
            elif kind == 'rename':
                # the user renames the model (same object)
                CUR['model'] = op['name']
                B.modelName = op['name']
            else:
                rec['harness_exc'] = f'unknown op {kind}'
        except Exception as e:  # noqa
            rec['harness_exc'] = traceback.format_exc()[-600:]
        rec.update(snap(B, sess))
        out.append(rec)
    return out, B


def in_dir(fn):
    root = os.getcwd()
    d = tempfile.mkdtemp(dir=root)
    os.chdir(d)
    try:
        return fn()
    finally:
        os.chdir(root)
        shutil.rmtree(d, ignore_errors=True)


def session_iter(sess):
    def go():
        np.random.seed(int(sess.get('seed', 0)))
        if sess.get('pre_file') is not None:
            with open('__' + sess['model'] + '.iter', 'wb') as f:
                f.write(sess['pre_file'].encode('latin-1'))
        for other, content in (sess.get('other_files') or {}).items():
            with open(other, 'wb') as f:
                f.write(content.encode('latin-1'))
        try:
            out, _ = run_ops(sess, sess['ops'])
            res = {'steps': out}
            res['others'] = {o: read_bytes(o) for o in (sess.get('other_files') or {})}
            return res
        except Exception:  # noqa
            return {'harness_exc': traceback.format_exc()[-800:]}

    return in_dir(go)


# ------------------------------------------------------------------------------ crash injection
class Crash(Exception):
    pass


def install_crash(plan):
    """plan = {'save': j, 'point': ('byte', k) | ('before_replace',) | ('after_replace',)}
    Without editing /repo: the module-global name `open` of biogeme.biogeme is looked up before the
    builtin, and os.replace is patched in the os module.  The process ends with os._exit (no
    flushing of Python buffers, no finally clauses, no atexit)."""
    import builtins

    saves = {'n': -1}
    real_open = builtins.open
    real_replace = os.replace

    class W:
        """budget counted in BYTES of the encoded text (a crash may fall inside a multi-byte character)"""

        def __init__(self, f, budget):
            self.f = f
            self.budget = budget

        def write(self, s):
            if self.budget is None:
                return self.f.write(s)
            b = s.encode(self.f.encoding or 'utf-8')
            self.f.flush()
            if len(b) <= self.budget:
                self.f.buffer.write(b)
                self.f.buffer.flush()
                self.budget -= len(b)
                if self.budget == 0:
                    # stop right after the k-th byte
                    os._exit(77)
                return len(s)
            self.f.buffer.write(b[:self.budget])
            self.f.buffer.flush()
            os._exit(77)

        def __enter__(self):
            return self

        def __exit__(self, *a):
            self.f.close()
            return False

        def __getattr__(self, n):
            return getattr(self.f, n)

    def my_open(name, mode='r', *a, **k):
        if 'w' in mode and str(name).endswith(('.iter', '.iter.tmp')):
            saves['n'] += 1
            f = real_open(name, mode, *a, **k)
            if saves['n'] == plan['save'] and plan['point'][0] == 'byte':
                if plan['point'][1] == 0:
                    f.flush()
                    os._exit(77)
                return W(f, plan['point'][1])
            return W(f, None)
        return real_open(name, mode, *a, **k)

    def my_replace(a, b, *r, **k):
        if saves['n'] == plan['save'] and plan['point'][0] == 'before_replace':
            os._exit(77)
        res = real_replace(a, b, *r, **k)
        if saves['n'] == plan['save'] and plan['point'][0] == 'after_replace':
            os._exit(77)
        return res

    bio.open = my_open
    os.replace = my_replace


def forked(fn, timeout=120):
    """Run fn() in a forked child (a separate process image); returns (exit status, result or None).
    The result travels through a pipe; a child that os._exit()s returns no result."""
    r, w = os.pipe()
    sys.stdout.flush()
    pid = os.fork()
    if pid == 0:
        try:
            os.close(r)
            signal.alarm(timeout)
            res = fn()
            with os.fdopen(w, 'w') as f:
                f.write(json.dumps(res))
            os._exit(0)
        except BaseException:  # noqa
            try:
                with os.fdopen(w, 'w') as f:
                    f.write(json.dumps({'child_exc': traceback.format_exc()[-800:]}))
            except Exception:  # noqa
                pass
            os._exit(3)
    os.close(w)
    with os.fdopen(r) as f:
        data = f.read()
    _, status = os.waitpid(pid, 0)
    code = os.waitstatus_to_exitcode(status)
    try:
        return code, json.loads(data) if data else None
    except Exception:  # noqa
        return code, {'garbled': data[:200]}


def session_crash(sess):
    """Process A runs sess['ops'] with a crash plan; process B (fresh) restarts."""

    def go():
        if sess.get('pre_file') is not None:
            with open('__' + sess['model'] + '.iter', 'wb') as f:
                f.write(sess['pre_file'].encode('latin-1'))

        def proc_a():
            np.random.seed(int(sess.get('seed', 0)))
            install_crash(sess['plan'])
            out, _ = run_ops(sess, sess['ops'])
            return {'steps': out}

        code_a, res_a = forked(proc_a)
        fn = '__' + sess['model'] + '.iter'
        after = {'file': read_bytes(fn), 'tmp': read_bytes(fn + '.tmp')}

        def proc_b():
            np.random.seed(1)
            out, _ = run_ops(sess, sess['restart_ops'])
            return {'steps': out}

        code_b, res_b = forked(proc_b)
        return {'a_exit': code_a, 'a': res_a, 'after_crash': after, 'b_exit': code_b, 'b': res_b}

    try:
        return in_dir(go)
    except Exception:  # noqa
        return {'harness_exc': traceback.format_exc()[-800:]}


def session_kill(sess):
    """NOT A PROOF: a child saves iterations in a loop and is SIGKILLed at a random instant."""

    def go():
        xs = sess['xs']

        r, w = os.pipe()

        def child():
            B = build(sess)
            os.write(w, b'x')  # ready: the loop starts now
            i = 0
            while True:
                x = xs[i % len(xs)]
                B.bestIteration = None
                B.calculate_likelihood_and_derivatives(np.array([unhex(v) for v in x]), scaled=False)
                i += 1

        pid = os.fork()
        if pid == 0:
            try:
                os.close(r)
                child()
            finally:
                os._exit(0)
        os.close(w)
        os.read(r, 1)
        os.close(r)
        time.sleep(sess['delay'])
        os.kill(pid, signal.SIGKILL)
        os.waitpid(pid, 0)
        fn = '__' + sess['model'] + '.iter'
        after = {'file': read_bytes(fn), 'tmp': read_bytes(fn + '.tmp')}

        def proc_b():
            out, _ = run_ops(sess, [{'op': 'new'}, {'op': 'estimate'}])
            return {'steps': out}

        code_b, res_b = forked(proc_b)
        return {'after_crash': after, 'b_exit': code_b, 'b': res_b}

    try:
        return in_dir(go)
    except Exception:  # noqa
        return {'harness_exc': traceback.format_exc()[-800:]}


def main():
    payload = json.load(sys.stdin)
    mode = payload['mode']
    fn = {'iter': session_iter, 'crash': session_crash, 'kill': session_kill}[mode]
    out = []
    for sess in payload['sessions']:
        try:
            out.append(fn(sess))
        except Exception:  # noqa
            out.append({'harness_exc': traceback.format_exc()[-800:]})
    print('@@' + json.dumps(out))


main()
