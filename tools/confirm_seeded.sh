#!/bin/bash
# usage: tools/confirm_seeded.sh <property id> <mutation name> [source dir]
# Confirms a seeded change in a scratch worktree of /repo (never in /repo itself):
#   demo passes on the unchanged tree, fails with the change; the whole existing suite passes with the change.
# Stores patch.diff, demo.py, meta.json (+ confirmation) under /verif/seeded/<id>/<name>/ when confirmed.
set -u
ID=$1; NAME=$2; DEF=/tmp/mutwork/$ID/$NAME; case $NAME in n*) DEF=/tmp/mutwork2/$ID/$NAME;; p*) DEF=/tmp/mutwork3/$ID/$NAME;; esac; SRC=${3:-$DEF}
WT=/tmp/confirm/$ID-$NAME; WORK=/tmp/confirm/work-$ID-$NAME
rm -rf "$WORK"; mkdir -p /tmp/confirm "$WORK"
git -C /repo worktree remove --force "$WT" >/dev/null 2>&1
git -C /repo worktree add --detach "$WT" HEAD >/dev/null 2>&1 || { echo "cannot create worktree"; exit 2; }
cleanup() { git -C /repo worktree remove --force "$WT" >/dev/null 2>&1; rm -rf "$WORK"; }
trap cleanup EXIT
run_demo() { ( cd "$WORK" && rm -rf ./* && PYTHONPATH="$WT/src" timeout 900 /venv/bin/python "$SRC/demo.py" > "$WORK/../demo-$ID-$NAME-$1.txt" 2>&1; echo $? ); }
sed -e "s#/tmp/mut/${ID}r3#$WT#g" -e "s#/tmp/mut/${ID}r2#$WT#g" -e "s#/tmp/mut/$ID#$WT#g" "$SRC/demo.py" > "$WORK/../demo-$ID-$NAME.py"
U=$(cd "$WORK" && PYTHONPATH="$WT/src" timeout 900 /venv/bin/python "$WORK/../demo-$ID-$NAME.py" > /tmp/confirm/out-$ID-$NAME-unchanged.txt 2>&1; echo $?)
if ! git -C "$WT" apply "$SRC/patch.diff"; then echo "[$ID/$NAME] patch does not apply to current HEAD"; exit 3; fi
C=$(cd "$WORK" && rm -rf ./* && PYTHONPATH="$WT/src" timeout 900 /venv/bin/python "$WORK/../demo-$ID-$NAME.py" > /tmp/confirm/out-$ID-$NAME-changed.txt 2>&1; echo $?)
T=skipped; TP=0
if [ "${SKIP_TESTS:-0}" != "1" ]; then
  (cd "$WT" && PYTHONPATH="$WT/src" timeout 3000 /venv/bin/python -m pytest -q -p no:cacheprovider --timeout=900 > /tmp/confirm/tests-$ID-$NAME.txt 2>&1)
  T=$(tail -1 /tmp/confirm/tests-$ID-$NAME.txt)
  echo "$T" | grep -q "failed\|error" && TP=0 || TP=1
fi
echo "[$ID/$NAME] demo unchanged rc=$U changed rc=$C tests: $T"
if [ "$U" = "0" ] && [ "$C" != "0" ] && { [ "$TP" = "1" ] || [ "${SKIP_TESTS:-0}" = "1" ]; }; then
  D=/verif/seeded/$ID/$NAME; mkdir -p "$D"
  cp "$SRC/patch.diff" "$D/patch.diff"; cp "$WORK/../demo-$ID-$NAME.py" "$D/demo.py"
  /venv/bin/python - "$SRC/meta.json" "$D/meta.json" "$U" "$C" "$T" <<'PY'
import json, sys
src, dst, u, c, t = sys.argv[1:6]
try:
    m = json.load(open(src))
except Exception:
    m = {}
m['confirmed_by_lead'] = {'how': 'tools/confirm_seeded.sh in a scratch worktree of /repo HEAD (never applied in /repo for confirmation)',
                          'demo_rc_unchanged': int(u), 'demo_rc_changed': int(c), 'existing_suite_with_change': t}
m['demo_usage'] = 'PYTHONPATH=<tree>/src /venv/bin/python demo.py  (exit 0 = property holds, 1 = violated)'
json.dump(m, open(dst, 'w'), indent=1)
PY
  echo "[$ID/$NAME] CONFIRMED -> $D"
else
  echo "[$ID/$NAME] NOT confirmed"
fi
