"""Rewrites section 8 of DESIGN.md (seeded changes and which checks catch them) from /verif/seeded/*/*/{meta,detected}.json."""
import glob, json, os, re
rows = []
for d in sorted(glob.glob('/verif/seeded/*/*/')):
    pid, name = d.rstrip('/').split('/')[-2:]
    try:
        m = json.load(open(d + 'meta.json'))
    except Exception:
        m = {}
    det = {}
    if os.path.exists(d + 'detected.json'):
        det = json.load(open(d + 'detected.json'))
    how = []
    for c, r in det.items():
        if r['rc'] == 1 and r['violation_lines'] > 0 and not r['no_failing_input_found']:
            k = (r.get('witnesses') or [{}])[0].get('key') or ''
            br = '; proof/tie also broken' if r.get('broken') else ''
            how.append(f'{c}: VIOLATION with concrete witness' + (f' (`{k}`)' if k else '') + br)
        elif r['rc'] == 1:
            how.append(f'{c}: VIOLATION no-failing-input-found')
        else:
            how.append(f'{c}: not detected (rc={r["rc"]})')
    title = (m.get('title') or '').replace('|', '/').replace('\n', ' ')[:170]
    needs = (m.get('needs') or '').replace('|', '/').replace('\n', ' ')[:230]
    rows.append(f'| {pid}/{name} | {title} | {needs} | {"; ".join(how) or "not run yet"} |')
text = f"""## 8. Seeded changes: which checks catch which changes

For every property an independent sub-agent, given ONLY the text of the property and a scratch worktree of `/repo` (nothing from
`/verif`), wrote three changes that break the property while the whole existing suite (476 tests) still passes, each with a
demonstration program (`demo.py`: exit 0 on the unchanged tree, exit 1 with the change). A change is kept under
`/verif/seeded/<id>/<name>/` (`patch.diff`, `demo.py`, `meta.json`) only after the lead confirmed all of that in a scratch
worktree (`tools/confirm_seeded.sh`; `meta.json: confirmed_by_lead`). `detected.json` records what the registered checks print
when the patch is applied to `/repo` itself (`tools/seeded_run.sh`: apply, `./check <id> --tier quick`, undo straight away).

Checks were strengthened where a first trial missed a change (trial = `tools/try_seeded.sh`, same run against a scratch worktree
through the `VERIF_REPO` test hook): C01 gained `history_shared` (sibling evaluation between two evaluations of a prepared
formula), distinct initial values and zeros for free parameters, and `dsl`; C03 gained per-call histories of partial dictionaries,
the iteration-file pairing and `results_names`; C08 the badly-scaled Hessian family; C10 formulas side by side with cross-formula
draw types; C11 call histories and multi-type tables; C18 the two-data-set history; C19 overlaps at every pair of positions; C20
falsy keyword values; C07 non-default tolerances; C04/C09 panel scaling and interrupted bootstraps; C12 overlapping nests at every
pair of positions, multi-formula dictionaries with the fault in the first / middle / last formula, database histories, and the
extraction of the accumulation rule of `BIOGEME._audit`; C15 saved coordinates that are exactly 0.0 / -0.0; C06 cross-nested
specifications written with full alpha dictionaries (alpha = 0 listed, alternatives outside every nest).

| Change | What | Needs to manifest | Result of the registered check(s) |
|---|---|---|---|
{chr(10).join(rows)}

"""
s = open('/verif/DESIGN.md').read()
tail = ''
if '## 8. Seeded changes' in s:
    rest = s[s.index('## 8. Seeded changes'):]
    s = s[:s.index('## 8. Seeded changes')]
    if '\n## 9.' in rest:
        tail = rest[rest.index('\n## 9.'):].lstrip('\n')
s = s.rstrip('\n') + '\n\n\n' + text + ('\n' + tail if tail else '')
open('/verif/DESIGN.md', 'w').write(s)
print('section 8 rewritten:', len(rows), 'seeded changes')
