"""Rewrites section 8 of DESIGN.md (seeded changes and which checks catch them) from /verif/seeded/*/*/{meta,detected}.json."""
import glob, json, os, re
rows = []
for d in sorted(glob.glob('/verif/seeded/*/*/')):
    pid, name = d.rstrip('/').split('/')[-2:]
    try:
        m = json.load(open(d + 'meta.json'))
    except Exception:
        m = {}
    det = {}
    if os.path.exists(d + 'detected.json'):
        det = json.load(open(d + 'detected.json'))
    how = []
    for c, r in det.items():
        if r['rc'] == 1 and r['violation_lines'] > 0 and not r['no_failing_input_found']:
            k = (r.get('witnesses') or [{}])[0].get('key') or ''
            br = '; proof/tie also broken' if r.get('broken') else ''
            how.append(f'{c}: VIOLATION with concrete witness' + (f' (`{k}`)' if k else '') + br)
        elif r['rc'] == 1:
            how.append(f'{c}: VIOLATION no-failing-input-found')
        else:
            how.append(f'{c}: not detected (rc={r["rc"]})')
    title = (m.get('title') or '').replace('|', '/').replace('\n', ' ')[:170]
    needs = (m.get('needs') or '').replace('|', '/').replace('\n', ' ')[:230]
    rows.append(f'| {pid}/{name} | {title} | {needs} | {"; ".join(how) or "not run yet"} |')
import json as _j
_own = _oth = _nf = _ms = 0
for _d in sorted(glob.glob('/verif/seeded/*/*/detected.json')):
    _pid = _d.split('/')[-3]; _r = _j.load(open(_d))
    _c = lambda r: r['rc'] == 1 and r['violation_lines'] > 0 and not r['no_failing_input_found']
    if _pid in _r and _c(_r[_pid]): _own += 1
    elif any(_c(x) for x in _r.values()): _oth += 1
    elif any(x['rc'] == 1 for x in _r.values()): _nf += 1
    else: _ms += 1
TALLY = (f'Final state (official runs against `/repo` HEAD with the final checks): {_own + _oth + _nf + _ms} stored changes; {_own} reported by the '
         f"property's own check with a concrete failing input, {_oth} only by another property's check, {_nf} only as no-failing-input-found, "
         f'{_ms} missed. Four delivered changes were neutralised by later repairs and are kept aside in `/verif/seeded_superseded/`.')
text = f"""## 8. Seeded changes: which checks catch which changes

Three rounds (the third for ten properties, two changes each). In each, for every property an independent sub-agent, given ONLY the text of the property and a scratch worktree of
`/repo` (nothing from `/verif`; in round 2 also the one-line titles of the round-1 changes, to avoid repeats), wrote three changes
that break the property while the whole existing suite (476 tests) still passes, each with a demonstration program (`demo.py`:
exit 0 on the unchanged tree, exit 1 with the change). A change is kept under `/verif/seeded/<id>/<name>/` (`patch.diff`,
`demo.py`, `meta.json`; `m*` = round 1, `n*` = round 2, `p*` = round 3) only after the lead confirmed all of that in a scratch worktree
(`tools/confirm_seeded.sh`; `meta.json: confirmed_by_lead`). `detected.json` records what the registered checks print when the
patch is applied to `/repo` itself (`tools/seeded_run.sh`: apply, `./check <id> --tier quick`, undo straight away): return code,
number of VIOLATION lines, whether a concrete input was found, the first witnesses, and which proof obligation / tie broke as well.
Five patches were re-based by hand after repairs in `/repo` touched the same lines (`patch.orig.diff` keeps the original).

Checks were strengthened where a first trial missed a change (trial = `tools/try_seeded.sh`, same run against a scratch worktree
through the `VERIF_REPO` test hook). Round 1: C01 gained `history_shared` (sibling evaluation between two evaluations of a prepared
formula), distinct initial values and zeros for free parameters, and `dsl`; C03 per-call histories of partial dictionaries, the
iteration-file pairing and `results_names`; C08 the badly-scaled Hessian family; C10 formulas side by side with cross-formula draw
types; C11 call histories and multi-type tables; C18 the two-data-set history; C19 overlaps at every pair of positions; C20 falsy
keyword values; C07 non-default tolerances; C04/C09 panel scaling and interrupted bootstraps; C12 overlapping nests at every pair of
positions, multi-formula dictionaries with the fault in each position, database histories, the accumulation rule of
`BIOGEME._audit`; C15 saved coordinates exactly 0.0 / -0.0; C06 full alpha dictionaries. Round 2 (25 of 60 changes were missed or
only half-caught at first): C01 `history_models` (several models / separate evaluations / a function created once sharing one
sub-formula object), constants with long mantissas, the constants -1 and -2 side by side, repeated evaluations of one object with
and without a dictionary; C04 the library's own splits (`extract_rows` on stepped ranges, `split(k)` with remainders,
`mdcev_row_split`) with new theorems, constant weights; C06 nest names / reused nest objects and constant availabilities; C07
bootstrap runs, histories on one object under recording spies, a likelihood with an undefined region; C08 histories of one
raw-results object; C09 histories of one Database (edits of the table, re-declaration) with a Coq state machine; C10 histories with a
shared draws / Derive / MonteCarlo / Integrate node; C11 boundary sizes of the Halton construction and more than 100000 points; C12
evaluation histories and draw-type clashes across formulas; C14 histories on one Parameters object; C15 non-ASCII names in a C
locale, scaled evaluations, bootstrap loops left by an exception; C16 histories where catalogs are created after controllers moved;
C17 sigma of both signs; C18 both signs of the dual variable; C19 alternatives tables with permuted row labels. The second round
also surfaced twelve genuine defects of the unchanged tree, all repaired (section 4). Round 3 (14 of 20 changes missed or
half-caught at first, all caught after strengthening): the same theme once more, HISTORIES on one object that nobody had yet
tried: nest objects and utility dictionaries re-used and updated in place between model calls (C05, C06), results kept from an
earlier evaluation (C04), a bootstrap left by an exception (C07), a model built before its table changed (C09), configurations
selected one after the other on one expression (C12), a check point put back or a model renamed between runs (C15), catalogs on a
shared controller in another order and alternatives whose top node is MonteCarlo (C16), identifiers stored once with the shared
object two levels below the root (C01). It surfaced five more defects of the unchanged tree; three are repaired, two (C04: the
engine is not fed again when the thread count changes behind its back) are open known findings.

{TALLY}

| Change | What | Needs to manifest | Result of the registered check(s) |
|---|---|---|---|
{chr(10).join(rows)}

"""
s = open('/verif/DESIGN.md').read()
tail = ''
if '## 8. Seeded changes' in s:
    rest = s[s.index('## 8. Seeded changes'):]
    s = s[:s.index('## 8. Seeded changes')]
    if '\n## 9.' in rest:
        tail = rest[rest.index('\n## 9.'):].lstrip('\n')
s = s.rstrip('\n') + '\n\n\n' + text + ('\n' + tail if tail else '')
open('/verif/DESIGN.md', 'w').write(s)
print('section 8 rewritten:', len(rows), 'seeded changes')
