#!/bin/bash
# Runs the repository's baseline suite and compares with BASELINE.json's stable_pass list.
# usage: tools/baseline.sh [repo_dir]
R=${1:-/repo}
OUT=$(mktemp -d /tmp/baseline.XXXX)
cd "$R" && PYTHONPATH="$R/src" /venv/bin/python -m pytest -q -p no:cacheprovider --timeout=900 --continue-on-collection-errors --junitxml=$OUT/j.xml > $OUT/log 2>&1
/venv/bin/python - "$OUT/j.xml" <<'PY'
import json, sys, xml.etree.ElementTree as ET
b = json.load(open('/root/.vp/BASELINE.json'))
stable = set(b['stable_pass'])
t = ET.parse(sys.argv[1])
passed = set()
for tc in t.iter('testcase'):
    name = f"{tc.get('classname')}::{tc.get('name')}"
    if not any(ch.tag in ('failure', 'error', 'skipped') for ch in tc):
        passed.add(name)
missing = sorted(stable - passed)
print(f'passed={len(passed)} stable={len(stable)} stable_missing={len(missing)} newly_passing={len(passed - stable)}')
for m in missing[:20]:
    print('  MISSING', m)
PY
rm -rf $OUT
cd "$R" && git status --short | grep -v "^??" | head -5
git -C "$R" clean -fdq -e '*.py' tests 2>/dev/null; true
