"""Regenerates the `fixed` list of KNOWN_FINDINGS.json from the fix: commits of /repo (hash, property, subject).
The property of each commit is looked up by a keyword of its subject."""
import json, subprocess
MAP = [
    ('temporary identifiers was refused', 'C12'),
    ('LogLogit.get_value returns -inf', 'C01'), ('PowerConstant.get_value', 'C01'), ('simulate used the identifiers', 'C01'),
    ('temporary identifiers', 'C01'), ('created by create_function', 'C01'),
    ('unique_entry', 'C02'),
    ('number_of_threads after construction', 'C04'), ('kept the last bootstrap sample', 'C04'),
    ('nested-logit generating function', 'C06'),
    ('scipy wrapper failed', 'C07'),
    ('bootstrap p-value', 'C08'), ('compile_estimation_results', 'C08'), ('single parameter failed', 'C08'), ('processed again after their Hessian', 'C08'),
    ('count_number_of_groups', 'C09'), ('before the map of individuals was rebuilt', 'C09'), ('draws were generated for the old number of individuals', 'C09'), ('old rows with the new ranges', 'C09'),
    ('declared with two different types', 'C10'), ('stored identifiers (prepare_ids=False)', 'C10'), ('read the draws generated later', 'C10'),
    ('NORMAL_HALTON3', 'C11'),
    ('ComparisonOperator.audit', 'C12'), ('MultipleExpression.audit', 'C12'), ('Variable absent from the database', 'C12'),
    ('draws outside MonteCarlo', 'C12'), ('pandas extension types', 'C12'), ('database emptied', 'C12'), ('selected member of a catalog', 'C12'),
    ('Database.remove dropped rows', 'C13'), ('stale map of individuals', 'C13'), ('declared the data as panel before', 'C13'),
    ('unstable algorithm', 'C13'),
    ('Parameters.dump_file', 'C14'), ('invalid boolean', 'C14'), ('generate_flat_panel_dataframe', 'C14'), ('LaTeX report', 'C14'),
    ('truncated and rewritten in place', 'C15'), ('bootstrap re-estimations', 'C15'), ('best-iteration marker', 'C15'),
    ('quick_estimate neither', 'C15'), ("containing '='", 'C15'),
    ('Box-Cox', 'C17'), ('piecewise_function', 'C17'), ('piecewise_as_variable', 'C17'), ('piecewise_variables', 'C17'),
    ('normalpdf and uniformpdf', 'C17'),
    ('MDCEV', 'C18'),
    ('sampled cross-nested logit', 'C19'), ('lists an alternative twice', 'C19'),
    ('@deprecated called', 'C20'), ('central controller of a formula', 'C16'), ('controllers bearing the same name', 'C16'), ('top node is a catalog', 'C16'), ('estimates were copied into the formulas only', 'C04'), ('descriptionOfNativeDraws', 'C20'), ('logcnl_avail', 'C20'),
]
log = subprocess.run(['git', '-C', '/repo', 'log', '--format=%h %s', '7e16da8..HEAD'], capture_output=True, text=True).stdout.splitlines()
fixed, unknown = [], []
for l in reversed(log):
    h, s = l.split(' ', 1)
    if not s.startswith('fix:'):
        continue
    prop = next((p for k, p in MAP if k in s), None)
    if prop is None:
        unknown.append(l)
        prop = '?'
    fixed.append(f'fixed: property={prop} {h} {s[5:]}')
d = json.load(open('/verif/KNOWN_FINDINGS.json'))
d['fixed'] = fixed
json.dump(d, open('/verif/KNOWN_FINDINGS.json', 'w'), indent=1)
print(len(fixed), 'fixed entries;', 'unmapped:', unknown)
