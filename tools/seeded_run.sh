#!/bin/bash
# usage: tools/seeded_run.sh <property id> <seeded dir name>   e.g. tools/seeded_run.sh C08 m1
# Applies /verif/seeded/<id>/<name>/patch.diff to /repo, runs ./check <id> (quick) and, when given, the
# other checks listed in CHECKS, undoes the change straight afterwards, and stores the outcome in
# /verif/seeded/<id>/<name>/detected.json (return code, number of VIOLATION lines, whether a concrete
# input was found, the first witness and the broken obligations/ties).  The evidence file of the
# property is put back afterwards (evidence/ describes the unchanged tree only).
set -u
ID=$1; NAME=$2; D=/verif/seeded/$ID/$NAME
CHECKS=${CHECKS:-$ID}
cd /repo || exit 2
if [ -n "$(git status --porcelain --untracked-files=no)" ]; then echo "/repo is not clean"; exit 2; fi
git apply "$D/patch.diff" || { echo "patch does not apply"; exit 2; }
trap 'git -C /repo checkout -- . ; git -C /repo clean -fdq src tests >/dev/null 2>&1' EXIT
cd /verif
TMP=$(mktemp -d /verif/.scratch/seeded.XXXXXX)
for C in $CHECKS; do
  cp evidence/$C.json $TMP/$C.evidence.json 2>/dev/null
  OUT=$(timeout 1800 ./check $C --tier quick 2>&1); RC=$?
  echo "$OUT" > $TMP/$C.out; echo $RC > $TMP/$C.rc
  V=$(echo "$OUT" | grep -c '^VIOLATION')
  NF=$(echo "$OUT" | grep -c 'no-failing-input-found')
  echo "[$ID/$NAME] check $C: rc=$RC violations=$V no-failing-input=$NF"
  echo "$OUT" | grep '^VIOLATION\|^\[C' | head -8
  cp $TMP/$C.evidence.json evidence/$C.json 2>/dev/null
done
/venv/bin/python - "$TMP" "$D" $CHECKS <<'EOF'
import json, re, sys
tmp, d, checks = sys.argv[1], sys.argv[2], sys.argv[3:]
res = {}
for c in checks:
    out = open(f'{tmp}/{c}.out').read()
    rc = int(open(f'{tmp}/{c}.rc').read())
    vl = [l for l in out.splitlines() if l.startswith('VIOLATION')]
    r = {'rc': rc, 'violation_lines': len(vl),
         'no_failing_input_found': sum('no-failing-input-found' in l for l in vl)}
    m = re.search(r'\[C\d\d\].*', out)
    if m:
        r['summary'] = m.group(0)[:400]
    wit = []
    for l in vl[:5]:
        p = re.search(r'replay=(\S+)', l).group(1)
        try:
            j = json.load(open(p))
        except Exception:
            continue
        if j.get('kind') == 'input':
            wit.append({'key': j.get('key'), 'what': str(j.get('what'))[:400],
                        'witness': json.dumps(j.get('witness'), default=str)[:600]})
            r.setdefault('broken', [str(b)[:200] for b in (j.get('broken') or [])][:6])
        else:
            r['broken'] = [str(b)[:300] for b in (j.get('no_longer_checks') or [])][:6]
    r['witnesses'] = wit[:3]
    res[c] = r
json.dump(res, open(f'{d}/detected.json', 'w'), indent=1)
EOF
rm -rf $TMP
