#!/bin/bash
# usage: tools/seeded_run.sh <property id> <seeded dir name>   e.g. tools/seeded_run.sh C08 m1
# Applies /verif/seeded/<id>/<name>/patch.diff to /repo, runs ./check <id> (quick) and, when given, the
# other checks listed in CHECKS, undoes the change straight afterwards, and stores the outcome in
# /verif/seeded/<id>/<name>/detected.json.
set -u
ID=$1; NAME=$2; D=/verif/seeded/$ID/$NAME
CHECKS=${CHECKS:-$ID}
cd /repo || exit 2
if [ -n "$(git status --porcelain --untracked-files=no)" ]; then echo "/repo is not clean"; exit 2; fi
git apply "$D/patch.diff" || { echo "patch does not apply"; exit 2; }
trap 'git -C /repo checkout -- . ; git -C /repo clean -fdq src tests >/dev/null 2>&1' EXIT
cd /verif
RES="{"
for C in $CHECKS; do
  OUT=$(timeout 1800 ./check $C --tier quick 2>&1); RC=$?
  V=$(echo "$OUT" | grep -c '^VIOLATION')
  NF=$(echo "$OUT" | grep -c 'no-failing-input-found')
  echo "[$ID/$NAME] check $C: rc=$RC violations=$V no-failing-input=$NF"
  echo "$OUT" | grep '^VIOLATION\|^\[C' | head -8
  RES="$RES\"$C\": {\"rc\": $RC, \"violation_lines\": $V, \"no_failing_input_found\": $NF},"
done
RES="${RES%,}}"
echo "$RES" > "$D/detected.json"
