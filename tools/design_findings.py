"""Rewrites section 4 of DESIGN.md (between the section-4 and section-5 headings) from KNOWN_FINDINGS.json."""
import json, re
d = json.load(open('/verif/KNOWN_FINDINGS.json'))
rows_fixed = []
for f in d['fixed']:
    m = re.match(r'fixed: property=(\S+) (\S+) (.*)', f)
    rows_fixed.append(f'| {m.group(1)} | `{m.group(2)}` | {m.group(3)} |')
rows_open = []
for f in d['findings']:
    if f.get('status', 'open') == 'open':
        why = f.get('why_not_fixed') or f.get('why_not_repaired') or ''
        rows_open.append(f"| {f['property']} | `{f['key']}` | {f['what']} | {why} |")
text = f"""## 4. Defects found on the pinned tree, and their disposition

Building the checks surfaced {len(rows_fixed) + len(rows_open)} genuine defects (the design session had anticipated 22). Each was first
reproduced with a concrete failing input against the real code (by the check's stream, corpus case or a
direct experiment recorded in the per-property agent reports), then

* **repaired** by a minimal, separate `fix:` commit in `/repo` when the patch is one a maintainer would accept
  and the whole existing suite (all 476 tests, not only the 415 of the stable baseline) still passes with it —
  {len(rows_fixed)} commits, listed below and in `KNOWN_FINDINGS.json` (`fixed`, suppressing nothing: the witnesses stay in
  `corpus/<id>/` and the checks report a VIOLATION if a repair is reverted);
* or **recorded** as an `open` known finding when it cannot be repaired from `/repo` (defect of the external compiled
  engine or optimiser), or when the repository's own tests require the current behaviour
  (AS241 branch test pinned by `tests/swissmetro/test_05.py`/`test_17.py`; dictionary formulas on panel data accepted by
  `tests/functions/test_biogeme.py`), or when the repair is a design decision rather than a slip
  (two `Controller` objects of one name). Two attempted repairs were WITHDRAWN for that reason after the suite was re-run
  (the AS241 branch repair and the panel check in the dictionary branch).

### Repaired (`fix:` commits in /repo, oldest first)

| Property | Commit | What was wrong |
|---|---|---|
{chr(10).join(rows_fixed)}

### Open known findings (printed as `KNOWN-FINDING:` by the check, never as VIOLATION)

| Property | Key (regular expression on the witness class) | What fails | Why not repaired |
|---|---|---|---|
{chr(10).join(rows_open)}

False alarms met while building (machinery corrected, never listed as findings): a same-named *directory* counted as an
existing file by the first C14 oracle; model said "outside the domain" where the engine happily propagates -inf (C01: nothing is
claimed about such cases now); engine error messages quoting a thread-dependent row (C20: numbers masked); `get_sample_size`
after rescaling the id column (C13 oracle asked more than the property); the engine's stale-exception state poisoning later
cases of one harness process (every runner now restarts after an engine exception).

"""
s = open('/verif/DESIGN.md').read()
i = s.index('## 4. Defects')
j = s.index('## 5. Not applicable')
open('/verif/DESIGN.md', 'w').write(s[:i] + text + s[j:])
print('section 4 rewritten:', len(rows_fixed), 'fixed,', len(rows_open), 'open')
