#!/bin/bash
# runs every registered check (quick unless TIER=thorough) on the current tree; prints one line per check; validates evidence
TIER=${TIER:-quick}; SEED=${VERIF_SEED:-0}
cd /verif
for id in $(/venv/bin/python -c "import json; print(' '.join(c['property_id'] for c in json.load(open('MANIFEST.json'))['checks']))"); do
  S=$(date +%s); OUT=$(VERIF_SEED=$SEED ./check $id --tier $TIER 2>&1); RC=$?; E=$(( $(date +%s) - S ))
  V=$(echo "$OUT" | grep -c '^VIOLATION'); K=$(echo "$OUT" | grep -c '^KNOWN-FINDING')
  echo "$id rc=$RC violations=$V known=$K wall=${E}s :: $(echo "$OUT" | grep '^\[C' | cut -c1-140)"
done
python3-vt - <<'PY'
import json, jsonschema, glob
sch = json.load(open('/root/.vp/EVIDENCE.schema.json'))
bad = 0
for f in sorted(glob.glob('/verif/evidence/*.json')):
    try:
        jsonschema.validate(json.load(open(f)), sch)
    except Exception as e:
        bad += 1
        print('INVALID evidence', f, str(e)[:200])
jsonschema.validate(json.load(open('/verif/MANIFEST.json')), json.load(open('/root/.vp/MANIFEST.schema.json')))
print('evidence files valid:', len(glob.glob('/verif/evidence/*.json')) - bad, 'invalid:', bad)
PY
