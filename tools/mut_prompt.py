"""Prints the prompt for a seeded-mutation sub-agent for one property (property text only)."""
import json, sys
pid = sys.argv[1]
rnd = int(sys.argv[2]) if len(sys.argv) > 2 else 1          # round 2: new changes, different from round 1
wt = f'/tmp/mut/{pid}' + ('' if rnd == 1 else f'r{rnd}')
work = '/tmp/mutwork' + ('' if rnd == 1 else str(rnd))
prefix = {1: 'm', 2: 'n'}.get(rnd, 'p')
how_many = ('THREE', 3) if rnd < 3 else ('TWO', 2)
earlier = ''
if rnd > 1:
    import glob
    ts = []
    for f in sorted(glob.glob(f'/verif/seeded/{pid}/*/meta.json')):
        m = json.load(open(f))
        ts.append('  - ' + (m.get('title') or '').replace('\n', ' ')[:200] + ' [' + ', '.join(m.get('files') or [])[:120] + ']')
    earlier = ('\n\nALREADY DONE by a colleague (do NOT repeat these or close variants; choose OTHER functions, OTHER mechanisms, and prefer '
               'changes that need a multi-step history, an interaction of two features, an unusual size/shape/ordering, or a rarely used '
               'public entry point of the anchored files):\n' + '\n'.join(ts))
p = [json.loads(l) for l in open('/verif/properties.jsonl') if json.loads(l)['id'] == pid][0]
print(f"""You are testing how robust a Python library's guarantees are. The library is biogeme (discrete choice models; expression trees evaluated by the compiled engine cythonbiogeme). You have your OWN scratch git worktree of the repository at {wt} (create it first with: `git -C /repo worktree add --detach {wt} HEAD`). Work ONLY inside {wt} and {work}/{pid} (create it). Do NOT read, list or use anything under /verif, and do not touch /repo itself (no edits, no commits there). Run Python as `cd {work}/{pid} && PYTHONPATH={wt}/src /venv/bin/python ...` (the installed package otherwise points at /repo/src, so PYTHONPATH is essential; check with `python -c "import biogeme; print(biogeme.__file__)"`). Always run in the scratch cwd: estimation writes files into cwd. Note: `BIOGEME(db, formula)` works; pass `parameters=Parameters()` objects if you want to set options.

THE PROPERTY (id {pid}): {p['title']}
Statement: {p['statement']}
Quantified over: {p['quantifier']['text']}
Why the existing tests cannot settle it: {p['why_tests_cant']}
Code it is anchored in: {', '.join(p['anchors']['files'])}

YOUR TASK: produce {how_many[0]} independent, realistic changes to the library source (under {wt}/src/biogeme), each of which BREAKS this property while the code still imports/compiles and the existing test suite still passes. Each change should look like a plausible slip or well-meant refactoring (an off-by-one, a swapped operand, sorted vs unsorted, > vs >=, a cache not invalidated, a wrong variable of a similar name, a special case handled "more efficiently", two sites that each look fine alone), and should need something SPECIFIC to manifest — an unusual input, a particular multi-step sequence of operations, a particular size/shape/ordering, an edge value, a crash or fault at a particular point — NOT something any ordinary use would expose at once. NEVER use `git stash` (the stash is shared by all worktrees of the repository and other people work in sibling worktrees): save a change with `git diff > file`, reset with `git checkout -- .`, restore with `git apply file`. Make the changes different in mechanism and location (different functions/files where possible). Keep each change small (1-15 lines).{earlier}

For EACH change i in 1..{how_many[1]} deliver, under {work}/{pid}/{prefix}<i>/ :
  * patch.diff — `git -C {wt} diff` of that change alone (apply each change on a clean tree: `git -C {wt} checkout -- .` between changes);
  * demo.py — a small standalone program that exits 0 and prints PASS on the UNCHANGED tree and exits 1 printing FAIL (with the observed vs expected values) on the changed tree; it must demonstrate a violation of the PROPERTY as stated (not merely a diff in some internal detail); run it both ways and record the outputs;
  * meta.json — {{"property": "{pid}", "title": "<one line>", "files": [...], "needs": "<what specific input/sequence/condition is needed for the violation to manifest>", "why_tests_pass": "<why the existing suite does not notice>", "demo_unchanged": "<output>", "demo_changed": "<output>", "tests_run": "<what you ran and the result>"}}.
Verify that the existing tests still pass with each change: run at least the test files that touch the modified code (e.g. `cd {wt} && PYTHONPATH={wt}/src /venv/bin/python -m pytest -q -p no:cacheprovider tests/functions/test_<module>.py`), and ONCE for each change the whole suite: `cd {wt} && flock /tmp/mut/suite.$((RANDOM % 3)).lock env PYTHONPATH={wt}/src /venv/bin/python -m pytest -q -p no:cacheprovider -x --timeout=900 2>&1 | tail -5` (the flock serialises the memory-hungry full-suite runs of the several people working on this machine — always use it for the full suite; it takes a few minutes once it starts; on the unchanged tree all 476 tests pass; if a run is killed (exit 137) simply repeat it). A change that makes any existing test fail is not acceptable — refine it.
When finished: `git -C {wt} checkout -- .`, remove build output/bytecode you created, and `git -C /repo worktree remove --force {wt}`. Keep {work}/{pid}. Final message: for each change one paragraph (what, where, what it needs to manifest) and the paths.""")
