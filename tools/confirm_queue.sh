#!/bin/bash
# usage: tools/confirm_queue.sh file_with_lines_"ID name"   (3 confirmations in parallel; log per item under /tmp/confirm/)
mkdir -p /tmp/confirm
xargs -P${PAR:-3} -L1 bash -c '/verif/tools/confirm_seeded.sh $0 $1 > /tmp/confirm/log-$0-$1.txt 2>&1' < "$1"
