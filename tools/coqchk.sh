#!/bin/bash
# Independent re-check of the compiled property files with coqchk (-o prints the axioms of everything loaded).
# usage: tools/coqchk.sh [rocq dir (default /verif/rocq; use a copy while checks are running)]
# C17 (and C19, which imports a lemma file of C17) depend on Interval.Tactic (the `interval` tactic): re-checking that library
# itself takes coqchk many hours, so for these two
# the library module Interval.Tactic and its dependencies are taken as checked (-admit); our own files are still re-checked.
cd ${1:-/verif/rocq}
for f in Properties/*.vo; do
  m=$(basename $f .vo)
  echo "== $m"
  ADMIT=""; case "$m" in C17|C19) ADMIT="-admit Interval.Tactic";; esac
  timeout 6000 coqchk -silent -o $ADMIT -Q . BV BV.Properties.$m 2>&1 | grep -v "^$" | tail -160
done
