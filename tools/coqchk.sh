#!/bin/bash
# Independent re-check of the compiled property files with coqchk (-o prints the axioms of everything loaded).
# usage: tools/coqchk.sh [rocq dir (default /verif/rocq; use a copy while checks are running)]
# C17 depends on Interval.Tactic (the `interval` tactic): re-checking that library itself takes coqchk many hours, so for C17
# the library module Interval.Tactic and its dependencies are taken as checked (-admit); our own files are still re-checked.
cd ${1:-/verif/rocq}
for f in Properties/*.vo; do
  m=$(basename $f .vo)
  echo "== $m"
  ADMIT=""; [ "$m" = "C17" ] && ADMIT="-admit Interval.Tactic"
  timeout 6000 coqchk -silent -o $ADMIT -Q . BV BV.Properties.$m 2>&1 | grep -v "^$" | tail -160
done
