#!/bin/bash
# Independent re-check of the compiled property files with coqchk (-o prints the axioms of everything loaded).
cd /verif/rocq
for f in Properties/*.vo; do
  m=$(basename $f .vo)
  echo "== $m"
  timeout 3000 coqchk -silent -o -Q . BV BV.Properties.$m 2>&1 | tail -40
done
