#!/bin/bash
# Re-checks EVERY compiled module of the development (Model, Gen, Proofs, Properties) with coqchk -norec: the module itself is
# re-checked by the independent checker, its dependencies are loaded without being re-checked (they are re-checked by their own
# turn in this loop, and the libraries by tools/coqchk.sh).  usage: tools/coqchk_modules.sh [rocq dir]
cd ${1:-/verif/rocq}
ls Model/*.vo Gen/*.vo Proofs/*.vo Properties/*.vo | sed 's/\.vo$//; s#/#.#' | \
  xargs -P 12 -I{} bash -c 'R=$(timeout 3000 coqchk -silent -norec BV.{} -Q . BV 2>&1 | tail -1); echo "{} ${R:-ok}"' | sort
