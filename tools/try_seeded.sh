#!/bin/bash
# usage: tools/try_seeded.sh <property id> <mutation name> [checks...]
# TRIAL of a seeded change against a scratch worktree (VERIF_REPO test hook): never touches /repo.
# The official run (tools/seeded_run.sh) applies the patch to /repo itself.
set -u
ID=$1; NAME=$2; shift 2; CHECKS=${*:-$ID}
SRC=/tmp/mutwork/$ID/$NAME; case $NAME in n*) SRC=/tmp/mutwork2/$ID/$NAME;; p*) SRC=/tmp/mutwork3/$ID/$NAME;; esac; [ -d /verif/seeded/$ID/$NAME ] && SRC=/verif/seeded/$ID/$NAME
WT=/tmp/mut/try_$ID
git -C /repo worktree remove --force $WT >/dev/null 2>&1; git -C /repo worktree add --detach $WT HEAD >/dev/null 2>&1
if ! git -C $WT apply $SRC/patch.diff; then echo "[$ID/$NAME] patch does not apply"; git -C /repo worktree remove --force $WT; exit 3; fi
for C in $CHECKS; do
  OUT=$(cd /verif && VERIF_REPO=$WT timeout 1800 ./check $C --tier quick 2>&1); RC=$?
  V=$(echo "$OUT" | grep -c '^VIOLATION'); NF=$(echo "$OUT" | grep -c 'no-failing-input-found')
  echo "[$ID/$NAME] check $C: rc=$RC violation_lines=$V no_failing_input=$NF :: $(echo "$OUT" | grep '^\[C' | cut -c1-160)"
done
git -C /repo worktree remove --force $WT >/dev/null 2>&1
# restore Gen/build state for the real tree
for C in $CHECKS; do (cd /verif && ./check $C --tier quick >/dev/null 2>&1); done
