"""Rewrites section 3a of DESIGN.md (per property, as built) from lib/registry.py and the evidence files."""
import json, os, sys
sys.path.insert(0, '/verif/lib')
from registry import CLAIMED
parts = []
for pid in sorted(CLAIMED):
    c = CLAIMED[pid]
    ev = {}
    f = f'/verif/evidence/{pid}.json'
    if os.path.exists(f):
        ev = json.load(open(f))
    cov = ev.get('coverage', {})
    streams = ', '.join(f"{s['stream']} ({s['evaluations']} cases, {s['distinct_nontrivial']} distinct non-trivial)" for s in cov.get('streams', []))
    ax = cov.get('print_assumptions', {}).get('axioms', [])
    parts.append(f"""#### {pid} (as built)

*Technique*: {c['technique']}.

*What is proved and how it is tied*: {c['text']}

*Trusted / assumed*: {c['note']}

*Last recorded run* (tier {ev.get('tier')}, seed {ev.get('seed')}): {cov.get('discharged')}/{cov.get('obligations')} obligations discharged; streams: {streams or 'n/a'}; axioms printed by Print Assumptions: {', '.join(ax) if ax else 'none (all closed under the global context)'}.
""")
text = """## 3a. Per property, as built

Section 3 above is the plan written before the code; this section is generated from `lib/registry.py` (the text shown in
MANIFEST.json) and from the evidence file of the last run of each check.

""" + '\n'.join(parts) + '\n'
s = open('/verif/DESIGN.md').read()
i = s.index('## 4. Defects found')
if '## 3a. Per property, as built' in s:
    s = s[:s.index('## 3a. Per property, as built')] + s[i:]
    i = s.index('## 4. Defects found')
s = s[:i] + text + s[i:]
open('/verif/DESIGN.md', 'w').write(s)
print('section 3a rewritten for', len(parts), 'properties')
