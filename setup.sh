#!/bin/bash
# MANIFEST.setup_cmd: build the whole Rocq development from files on disk (offline).
set -e
cd /verif
mkdir -p evidence rocq/Gen .scratch
# 1. tie A: regenerate every Gen/*.v from /repo's current tree (translator aborts are
#    reported by the individual checks, not here)
/venv/bin/python -B /verif/lib/genall.py || true
# 2. full .vo build (no -vos)
cd /verif/rocq
/venv/bin/python -B -c "import sys; sys.path.insert(0,'/verif/lib'); import common; common.ensure_makefile()"
timeout 3000 make -j"$(nproc)" -k 2>&1 | tail -n 30 || true
echo "setup done"
